(* Reference GooseLang: a definitional interpreter (substitution based, with
   fuel) for the syntax of GlSyntax.v.

   Evaluation order follows heap_lang/GooseLang: in an application, a binary
   operation and a pair the RIGHT operand is evaluated first.  Machine words
   wrap; the operands of a binary operator must be literals of the same kind or
   evaluation is stuck.  Memory is a list of blocks of cells holding values;
   typed loads and stores flatten values according to the type.  Library
   functions are primitive values executed when fully applied.

   Results: RVal (a value and the new state), RStuck (undefined behaviour:
   Panic, a failed Assert, an out-of-bounds access, an ill-formed operation),
   RFuel (ran out of fuel: divergence or not enough fuel).

   Not determined by the published definitions / chosen here (programs whose
   result depends on them are kept out of the generators): capacity of a grown
   slice (len+1 doubled), order of map iteration (insertion order), shifts by
   64 or more (result 0, as in Go). *)
From Coq Require Import String List ZArith Bool Ascii.
From GV Require Import Lang.GlSyntax.
Import ListNotations.
Open Scope Z_scope.

(* ---------------------------------------------------------------- state *)
Inductive block :=
| BCells (cs : list val)
| BMap (kvs : list (val * val)) (default : val).

Record state := { heap : list block; rand_seed : Z }.
Definition state0 : state := {| heap := []; rand_seed := 1 |}.

Inductive res :=
| RVal (v : val) (s : state)
| RStuck (why : string)
| RFuel.

Definition u64 (n : Z) : Z := n mod 2 ^ 64.
Definition u32 (n : Z) : Z := n mod 2 ^ 32.
Definition u8 (n : Z) : Z := n mod 2 ^ 8.

Definition vint (n : Z) : val := LitV (LitInt (u64 n)).
Definition vbool (b : bool) : val := LitV (LitBool b).
Definition vunit : val := LitV LitUnit.

(* ---------------------------------------------------------------- substitution *)
Definition binder_is (b : binder) (x : string) : bool :=
  match b with BNamed y => String.eqb x y | BAnon => false end.

Fixpoint subst (x : string) (v : val) (e : expr) : expr :=
  match e with
  | Val _ => e
  | Var y => if String.eqb x y then Val v else e
  | Rec f y b => if binder_is f x || binder_is y x then e else Rec f y (subst x v b)
  | App e1 e2 => App (subst x v e1) (subst x v e2)
  | UnOp op e1 => UnOp op (subst x v e1)
  | BinOp op e1 e2 => BinOp op (subst x v e1) (subst x v e2)
  | If e0 e1 e2 => If (subst x v e0) (subst x v e1) (subst x v e2)
  | Pair e1 e2 => Pair (subst x v e1) (subst x v e2)
  | Fst e1 => Fst (subst x v e1)
  | Snd e1 => Snd (subst x v e1)
  | Fork e1 => Fork (subst x v e1)
  end.

Definition subst' (b : binder) (v : val) (e : expr) : expr :=
  match b with BNamed x => subst x v e | BAnon => e end.

(* ---------------------------------------------------------------- operators *)
Definition lit_eqb (a b : base_lit) : option bool :=
  match a, b with
  | LitInt x, LitInt y | LitInt32 x, LitInt32 y | LitByte x, LitByte y => Some (Z.eqb x y)
  | LitBool x, LitBool y => Some (Bool.eqb x y)
  | LitString x, LitString y => Some (String.eqb x y)
  | LitUnit, LitUnit => Some true
  | LitNull, LitNull => Some true
  | LitLoc b o, LitLoc b' o' => Some (Nat.eqb b b' && Nat.eqb o o')
  | LitNull, LitLoc _ _ | LitLoc _ _, LitNull => Some false
  | _, _ => None
  end.

(* equality is defined on comparable values: literals and pairs of comparable
   values; literals of different kinds are different *)
Fixpoint val_eqb (v1 v2 : val) : option bool :=
  match v1, v2 with
  | LitV a, LitV b => match lit_eqb a b with Some r => Some r | None => Some false end
  | PairV a b, PairV c d =>
      match val_eqb a c, val_eqb b d with Some x, Some y => Some (x && y) | _, _ => None end
  | LitV _, PairV _ _ | PairV _ _, LitV _ => Some false
  | _, _ => None
  end.

Definition word_op (op : bin_op) (w : Z) (x y : Z) : option Z :=
  let m := 2 ^ w in
  match op with
  | PlusOp => Some ((x + y) mod m)
  | MinusOp => Some ((x - y) mod m)
  | MultOp => Some ((x * y) mod m)
  | QuotOp => if y =? 0 then None else Some (x / y)
  | RemOp => if y =? 0 then None else Some (x mod y)
  | AndOp => Some (Z.land x y)
  | OrOp => Some (Z.lor x y)
  | XorOp => Some (Z.lxor x y)
  | ShiftLOp => Some (if w <=? y then 0 else (Z.shiftl x y) mod m)
  | ShiftROp => Some (if w <=? y then 0 else Z.shiftr x y)
  | _ => None
  end.

Definition bin_op_eval (op : bin_op) (v1 v2 : val) : option val :=
  match v1, v2 with
  | LitV a, LitV b =>
      match op with
      | EqOp => match val_eqb v1 v2 with Some r => Some (vbool r) | None => None end
      | LtOp | LeOp =>
          match a, b with
          | LitInt x, LitInt y | LitInt32 x, LitInt32 y | LitByte x, LitByte y =>
              Some (vbool (match op with LtOp => x <? y | _ => x <=? y end))
          | _, _ => None
          end
      | _ =>
          match a, b with
          | LitInt x, LitInt y => match word_op op 64 x y with Some r => Some (LitV (LitInt r)) | None => None end
          | LitInt32 x, LitInt32 y => match word_op op 32 x y with Some r => Some (LitV (LitInt32 r)) | None => None end
          | LitByte x, LitByte y => match word_op op 8 x y with Some r => Some (LitV (LitByte r)) | None => None end
          | LitString x, LitString y => match op with PlusOp => Some (LitV (LitString (x ++ y))) | _ => None end
          | _, _ => None
          end
      end
  | _, _ => match op with
            | EqOp => match val_eqb v1 v2 with Some r => Some (vbool r) | None => None end
            | _ => None
            end
  end.

Definition un_op_eval (op : un_op) (v : val) : option val :=
  match v with
  | LitV l =>
      match op, l with
      | NegOp, LitBool b => Some (vbool (negb b))
      | NegOp, LitInt n => Some (LitV (LitInt (2 ^ 64 - 1 - n)))
      | NegOp, LitInt32 n => Some (LitV (LitInt32 (2 ^ 32 - 1 - n)))
      | NegOp, LitByte n => Some (LitV (LitByte (2 ^ 8 - 1 - n)))
      | ToUInt64Op, (LitInt n | LitInt32 n | LitByte n) => Some (LitV (LitInt (u64 n)))
      | ToUInt32Op, (LitInt n | LitInt32 n | LitByte n) => Some (LitV (LitInt32 (u32 n)))
      | ToUInt8Op, (LitInt n | LitInt32 n | LitByte n) => Some (LitV (LitByte (u8 n)))
      | _, _ => None
      end
  | _ => None
  end.

(* ---------------------------------------------------------------- typed memory *)
Fixpoint ty_size (t : ty) : nat :=
  match t with
  | unitT => 0
  | prodT a b => ty_size a + ty_size b
  | sliceT _ => 3
  | _ => 1
  end.

Fixpoint flatten (t : ty) (v : val) : list val :=
  match t, v with
  | unitT, _ => []
  | prodT a b, PairV x y => flatten a x ++ flatten b y
  | sliceT _, PairV p (PairV l c) => [p; l; c]
  | _, _ => [v]
  end.

(* untyped allocation flattens by the shape of the value *)
Fixpoint flatten_val (v : val) : list val :=
  match v with
  | PairV x y => flatten_val x ++ flatten_val y
  | LitV LitUnit => []
  | _ => [v]
  end.

Fixpoint unflatten (t : ty) (cs : list val) : val :=
  match t with
  | unitT => vunit
  | prodT a b => PairV (unflatten a (firstn (ty_size a) cs)) (unflatten b (skipn (ty_size a) cs))
  | sliceT _ => match cs with [p; l; c] => PairV p (PairV l c) | _ => vunit end
  | _ => match cs with v :: _ => v | [] => vunit end
  end.

Fixpoint set_nth {A} (l : list A) (i : nat) (x : A) : list A :=
  match l, i with
  | [], _ => []
  | _ :: t, O => x :: t
  | h :: t, S i' => h :: set_nth t i' x
  end.

Fixpoint update_range (l : list val) (off : nat) (vs : list val) : list val :=
  match vs with
  | [] => l
  | v :: vs' => update_range (set_nth l off v) (S off) vs'
  end.

Definition alloc (cs : list val) (s : state) : val * state :=
  (LitV (LitLoc (length (heap s)) 0), {| heap := heap s ++ [BCells cs]; rand_seed := rand_seed s |}).

Definition read_cells (b off n : nat) (s : state) : option (list val) :=
  match nth_error (heap s) b with
  | Some (BCells cs) => if Nat.leb (off + n) (length cs) then Some (firstn n (skipn off cs)) else None
  | _ => None
  end.

Definition write_cells (b off : nat) (vs : list val) (s : state) : option state :=
  match nth_error (heap s) b with
  | Some (BCells cs) =>
      if Nat.leb (off + length vs) (length cs)
      then Some {| heap := set_nth (heap s) b (BCells (update_range cs off vs)); rand_seed := rand_seed s |}
      else None
  | _ => None
  end.

Definition load (t : ty) (l : val) (s : state) : option val :=
  match l with
  | LitV (LitLoc b off) => match read_cells b off (ty_size t) s with Some cs => Some (unflatten t cs) | None => None end
  | _ => None
  end.

Definition store (t : ty) (l v : val) (s : state) : option state :=
  match l with
  | LitV (LitLoc b off) => write_cells b off (flatten t v) s
  | _ => None
  end.

(* struct fields *)
Fixpoint field_offset (d : descriptor) (f : string) : option (nat * ty) :=
  match d with
  | [] => None
  | (g, t) :: d' => if String.eqb f g then Some (0%nat, t)
                    else match field_offset d' f with Some (o, t') => Some ((ty_size t + o)%nat, t') | None => None end
  end.

Fixpoint struct_get (d : descriptor) (f : string) (v : val) : option val :=
  match d, v with
  | (g, _) :: d', PairV x rest => if String.eqb f g then Some x else struct_get d' f rest
  | _, _ => None
  end.

(* slices are (pointer, length, capacity) *)
Definition slice_parts (v : val) : option (val * Z * Z) :=
  match v with
  | PairV p (PairV (LitV (LitInt l)) (LitV (LitInt c))) => Some (p, l, c)
  | _ => None
  end.
Definition mk_slice (p : val) (l c : Z) : val := PairV p (PairV (LitV (LitInt l)) (LitV (LitInt c))).
Definition loc_add (p : val) (k : nat) : val :=
  match p with LitV (LitLoc b o) => LitV (LitLoc b (o + k)) | _ => p end.

(* strings as byte lists *)
Fixpoint string_bytes (s : string) : list val :=
  match s with EmptyString => [] | String c s' => LitV (LitByte (Z.of_nat (nat_of_ascii c))) :: string_bytes s' end.
Fixpoint bytes_string (l : list val) : option string :=
  match l with
  | [] => Some EmptyString
  | LitV (LitByte n) :: t => match bytes_string t with Some s => Some (String (ascii_of_nat (Z.to_nat n)) s) | None => None end
  | _ => None
  end.

Fixpoint digits (fuel : nat) (n : Z) : string :=
  match fuel with
  | O => ""
  | S f => let d := String (ascii_of_nat (48 + Z.to_nat (n mod 10))) EmptyString in
           if n <? 10 then d else (digits f (n / 10) ++ d)%string
  end.

Fixpoint le_bytes (k : nat) (n : Z) : list val :=
  match k with O => [] | S k' => LitV (LitByte (n mod 256)) :: le_bytes k' (n / 256) end.
Fixpoint le_value (l : list val) : option Z :=
  match l with
  | [] => Some 0
  | LitV (LitByte b) :: t => match le_value t with Some r => Some (b + 256 * r) | None => None end
  | _ => None
  end.

(* maps *)
Fixpoint map_lookup (k : val) (kvs : list (val * val)) : option val :=
  match kvs with
  | [] => None
  | (k', v) :: t =>
      match k, k' with
      | LitV a, LitV b => match lit_eqb a b with Some true => Some v | _ => map_lookup k t end
      | _, _ => map_lookup k t
      end
  end.
Fixpoint map_remove (k : val) (kvs : list (val * val)) : list (val * val) :=
  match kvs with
  | [] => []
  | (k', v) :: t =>
      match k, k' with
      | LitV a, LitV b => match lit_eqb a b with Some true => map_remove k t | _ => (k', v) :: map_remove k t end
      | _, _ => (k', v) :: map_remove k t
      end
  end.
Definition map_insert (k v : val) (kvs : list (val * val)) : list (val * val) :=
  match map_lookup k kvs with
  | Some _ => map (fun kv => match fst kv, k with
                             | LitV a, LitV b => match lit_eqb a b with Some true => (fst kv, v) | _ => kv end
                             | _, _ => kv end) kvs
  | None => kvs ++ [(k, v)]
  end.

Definition set_block (b : nat) (bl : block) (s : state) : state :=
  {| heap := set_nth (heap s) b bl; rand_seed := rand_seed s |}.

(* arity of the library functions *)
Definition arity (p : prim) : nat :=
  match p with
  | PRefTo _ | PRef | PLoad _ | PZeroArray _ => 1
  | PStore _ => 2
  | PStructGet _ _ | PStructLoadF _ _ | PStructFieldRef _ _ | PStructLoad _ | PStructAlloc _ => 1
  | PStructStoreF _ _ | PStructStore _ => 2
  | PSliceLen | PSliceCap | PSliceSingleton => 1
  | PNewSlice _ => 1 | PNewSliceWithCap _ => 2
  | PSliceGet _ | PSliceRef _ | PSliceSkip _ | PSliceTake | PSliceAppend _ | PSliceAppendSlice _ | PSliceCopy _ => 2
  | PSliceSet _ | PSliceSubslice _ => 3
  | PNewMap _ _ => 1 | PMapGet | PMapDelete => 2 | PMapInsert => 3 | PMapLen | PMapClear => 1
  | PStringLength | PStringToBytes | PStringFromBytes | PUInt64ToString => 1
  | PUInt64Get | PUInt32Get => 1 | PUInt64Put | PUInt32Put => 2
  | PLockNew | PLockAcquire | PLockRelease | PNewCond | PCondSignal | PCondBroadcast | PCondWait => 1
  | PCondWaitTimeout => 2
  | PWaitGroupNew | PWaitGroupDone | PWaitGroupWait => 1 | PWaitGroupAdd => 2
  | PPanic _ | PAssume | PAssert | PExit | PLinearize => 1
  | PTimeSleep | PTimeNow | PRandom | PNewProph => 1 | PResolveProph => 2
  | PFor => 3 | PForSlice _ | PMapIter => 2 | PToU64 | PToU32 | PToU8 => 1
  | PExt _ => 1000          (* FFI and imported functions have no semantics here: never executed *)
  end.

Definition zeros (t : ty) (n : nat) : list val := concat (repeat (flatten t (zero_val t)) n).

(* first-order library functions: result or stuck *)
Definition exec_prim (p : prim) (args : list val) (s : state) : res :=
  match p, args with
  | PRefTo t, [v] => let '(l, s') := alloc (flatten t v) s in RVal l s'
  | PRef, [v] => let '(l, s') := alloc (flatten_val v) s in RVal l s'
  | PZeroArray t, [LitV (LitInt n)] => let '(l, s') := alloc (zeros t (Z.to_nat n)) s in RVal l s'
  | PLoad t, [l] => match load t l s with Some v => RVal v s | None => RStuck "load" end
  | PStore t, [l; v] => match store t l v s with Some s' => RVal vunit s' | None => RStuck "store" end
  | PStructGet d f, [v] => match struct_get d f v with Some x => RVal x s | None => RStuck "struct.get" end
  | PStructAlloc d, [v] => let '(l, s') := alloc (flatten (struct_ty d) v) s in RVal l s'
  | PStructLoad d, [l] => match load (struct_ty d) l s with Some v => RVal v s | None => RStuck "struct.load" end
  | PStructStore d, [l; v] => match store (struct_ty d) l v s with Some s' => RVal vunit s' | None => RStuck "struct.store" end
  | PStructFieldRef d f, [l] =>
      match field_offset d f with Some (o, _) => RVal (loc_add l o) s | None => RStuck "struct.fieldRef" end
  | PStructLoadF d f, [l] =>
      match field_offset d f with
      | Some (o, t) => match load t (loc_add l o) s with Some v => RVal v s | None => RStuck "struct.loadF" end
      | None => RStuck "struct.loadF: no field"
      end
  | PStructStoreF d f, [l; v] =>
      match field_offset d f with
      | Some (o, t) => match store t (loc_add l o) v s with Some s' => RVal vunit s' | None => RStuck "struct.storeF" end
      | None => RStuck "struct.storeF: no field"
      end
  | PSliceLen, [v] => match slice_parts v with Some (_, l, _) => RVal (vint l) s | None => RStuck "slice.len" end
  | PSliceCap, [v] => match slice_parts v with Some (_, _, c) => RVal (vint c) s | None => RStuck "slice.cap" end
  | PNewSlice t, [LitV (LitInt n)] =>
      if n =? 0 then RVal (mk_slice (LitV LitNull) 0 0) s
      else let '(l, s') := alloc (zeros t (Z.to_nat n)) s in RVal (mk_slice l n n) s'
  | PNewSliceWithCap t, [LitV (LitInt n); LitV (LitInt c)] =>
      if c <? n then RStuck "NewSliceWithCap"
      else let '(l, s') := alloc (zeros t (Z.to_nat c)) s in RVal (mk_slice l n c) s'
  | PSliceSingleton, [v] => let '(l, s') := alloc [v] s in RVal (mk_slice l 1 1) s'
  | PSliceGet t, [sl; LitV (LitInt i)] =>
      match slice_parts sl with
      | Some (p, l, _) => if i <? l then match load t (loc_add p (Z.to_nat i * ty_size t)) s with Some v => RVal v s | None => RStuck "SliceGet" end
                          else RStuck "SliceGet: out of bounds"
      | None => RStuck "SliceGet"
      end
  | PSliceSet t, [sl; LitV (LitInt i); v] =>
      match slice_parts sl with
      | Some (p, l, _) => if i <? l then match store t (loc_add p (Z.to_nat i * ty_size t)) v s with Some s' => RVal vunit s' | None => RStuck "SliceSet" end
                          else RStuck "SliceSet: out of bounds"
      | None => RStuck "SliceSet"
      end
  | PSliceRef t, [sl; LitV (LitInt i)] =>
      match slice_parts sl with
      | Some (p, l, _) => if i <? l then RVal (loc_add p (Z.to_nat i * ty_size t)) s else RStuck "SliceRef: out of bounds"
      | None => RStuck "SliceRef"
      end
  | PSliceSkip t, [sl; LitV (LitInt n)] =>
      match slice_parts sl with
      | Some (p, l, c) => if l <? n then RStuck "SliceSkip: out of bounds"
                          else RVal (mk_slice (loc_add p (Z.to_nat n * ty_size t)) (l - n) (c - n)) s
      | None => RStuck "SliceSkip"
      end
  | PSliceTake, [sl; LitV (LitInt n)] =>
      match slice_parts sl with
      | Some (p, l, c) => if c <? n then RStuck "SliceTake: out of bounds" else RVal (mk_slice p n c) s
      | None => RStuck "SliceTake"
      end
  | PSliceSubslice t, [sl; LitV (LitInt a); LitV (LitInt b)] =>
      match slice_parts sl with
      | Some (p, l, c) => if (b <? a) || (c <? b) then RStuck "SliceSubslice: out of bounds"
                          else RVal (mk_slice (loc_add p (Z.to_nat a * ty_size t)) (b - a) (c - a)) s
      | None => RStuck "SliceSubslice"
      end
  | PSliceAppend t, [sl; v] =>
      match slice_parts sl with
      | Some (p, l, c) =>
          if l <? c then
            match store t (loc_add p (Z.to_nat l * ty_size t)) v s with
            | Some s' => RVal (mk_slice p (l + 1) c) s'
            | None => RStuck "SliceAppend"
            end
          else
            let sz := ty_size t in
            match (match p with LitV LitNull => Some [] | LitV (LitLoc b o) => read_cells b o (Z.to_nat l * sz) s | _ => None end) with
            | Some old =>
                let c' := 2 * (l + 1) in
                let '(nl, s') := alloc (old ++ flatten t v ++ zeros t (Z.to_nat (c' - l - 1))) s in
                RVal (mk_slice nl (l + 1) c') s'
            | None => RStuck "SliceAppend: read"
            end
      | None => RStuck "SliceAppend"
      end
  | PSliceAppendSlice t, [sl; sl2] =>
      match slice_parts sl, slice_parts sl2 with
      | Some (p, l, c), Some (p2, l2, _) =>
          let sz := ty_size t in
          let rd p n := match p with LitV LitNull => Some [] | LitV (LitLoc b o) => read_cells b o (Z.to_nat n * sz) s | _ => None end in
          match rd p l, rd p2 l2 with
          | Some old, Some extra =>
              if l + l2 <=? c then
                match (match p with LitV (LitLoc b o) => write_cells b (o + Z.to_nat l * sz) extra s | _ => if l2 =? 0 then Some s else None end) with
                | Some s' => RVal (mk_slice p (l + l2) c) s'
                | None => RStuck "SliceAppendSlice: write"
                end
              else
                let c' := 2 * (l + l2) in
                let '(nl, s') := alloc (old ++ extra ++ zeros t (Z.to_nat (c' - l - l2))) s in
                RVal (mk_slice nl (l + l2) c') s'
          | _, _ => RStuck "SliceAppendSlice: read"
          end
      | _, _ => RStuck "SliceAppendSlice"
      end
  | PSliceCopy t, [dst; src] =>
      match slice_parts dst, slice_parts src with
      | Some (pd, ld, _), Some (ps, ls, _) =>
          let n := Z.min ld ls in
          let sz := ty_size t in
          match (match ps with LitV (LitLoc b o) => read_cells b o (Z.to_nat n * sz) s | _ => if n =? 0 then Some [] else None end) with
          | Some cells =>
              match (match pd with LitV (LitLoc b o) => write_cells b o cells s | _ => if n =? 0 then Some s else None end) with
              | Some s' => RVal (vint n) s'
              | None => RStuck "SliceCopy: write"
              end
          | None => RStuck "SliceCopy: read"
          end
      | _, _ => RStuck "SliceCopy"
      end
  | PNewMap _ vt, [_] =>
      RVal (LitV (LitLoc (length (heap s)) 0)) {| heap := heap s ++ [BMap [] (zero_val vt)]; rand_seed := rand_seed s |}
  | PMapGet, [LitV (LitLoc b _); k] =>
      match nth_error (heap s) b with
      | Some (BMap kvs d) => match map_lookup k kvs with
                             | Some v => RVal (PairV v (vbool true)) s
                             | None => RVal (PairV d (vbool false)) s end
      | _ => RStuck "MapGet"
      end
  | PMapInsert, [LitV (LitLoc b _); k; v] =>
      match nth_error (heap s) b with
      | Some (BMap kvs d) => RVal vunit (set_block b (BMap (map_insert k v kvs) d) s)
      | _ => RStuck "MapInsert"
      end
  | PMapDelete, [LitV (LitLoc b _); k] =>
      match nth_error (heap s) b with
      | Some (BMap kvs d) => RVal vunit (set_block b (BMap (map_remove k kvs) d) s)
      | _ => RStuck "MapDelete"
      end
  | PMapLen, [LitV (LitLoc b _)] =>
      match nth_error (heap s) b with
      | Some (BMap kvs _) => RVal (vint (Z.of_nat (length kvs))) s
      | _ => RStuck "MapLen"
      end
  | PMapClear, [LitV (LitLoc b _)] =>
      match nth_error (heap s) b with
      | Some (BMap _ d) => RVal vunit (set_block b (BMap [] d) s)
      | _ => RStuck "MapClear"
      end
  | PStringLength, [LitV (LitString x)] => RVal (vint (Z.of_nat (String.length x))) s
  | PStringToBytes, [LitV (LitString x)] =>
      let n := Z.of_nat (String.length x) in
      if n =? 0 then RVal (mk_slice (LitV LitNull) 0 0) s
      else let '(l, s') := alloc (string_bytes x) s in RVal (mk_slice l n n) s'
  | PStringFromBytes, [sl] =>
      match slice_parts sl with
      | Some (p, l, _) =>
          match (match p with LitV (LitLoc b o) => read_cells b o (Z.to_nat l) s | _ => if l =? 0 then Some [] else None end) with
          | Some cells => match bytes_string cells with Some x => RVal (LitV (LitString x)) s | None => RStuck "StringFromBytes" end
          | None => RStuck "StringFromBytes: read"
          end
      | None => RStuck "StringFromBytes"
      end
  | PUInt64ToString, [LitV (LitInt n)] => RVal (LitV (LitString (digits 21 n))) s
  | PUInt64Put, [sl; LitV (LitInt n)] =>
      match slice_parts sl with
      | Some (LitV (LitLoc b o), l, _) =>
          if l <? 8 then RStuck "UInt64Put: short" else
          match write_cells b o (le_bytes 8 n) s with Some s' => RVal vunit s' | None => RStuck "UInt64Put" end
      | _ => RStuck "UInt64Put"
      end
  | PUInt32Put, [sl; LitV (LitInt32 n)] =>
      match slice_parts sl with
      | Some (LitV (LitLoc b o), l, _) =>
          if l <? 4 then RStuck "UInt32Put: short" else
          match write_cells b o (le_bytes 4 n) s with Some s' => RVal vunit s' | None => RStuck "UInt32Put" end
      | _ => RStuck "UInt32Put"
      end
  | PUInt64Get, [sl] =>
      match slice_parts sl with
      | Some (LitV (LitLoc b o), l, _) =>
          if l <? 8 then RStuck "UInt64Get: short" else
          match read_cells b o 8 s with
          | Some cells => match le_value cells with Some n => RVal (LitV (LitInt n)) s | None => RStuck "UInt64Get" end
          | None => RStuck "UInt64Get"
          end
      | _ => RStuck "UInt64Get"
      end
  | PUInt32Get, [sl] =>
      match slice_parts sl with
      | Some (LitV (LitLoc b o), l, _) =>
          if l <? 4 then RStuck "UInt32Get: short" else
          match read_cells b o 4 s with
          | Some cells => match le_value cells with Some n => RVal (LitV (LitInt32 n)) s | None => RStuck "UInt32Get" end
          | None => RStuck "UInt32Get"
          end
      | _ => RStuck "UInt32Get"
      end
  (* locks, sequentially: a cell holding a boolean; acquiring a held lock never succeeds *)
  | PLockNew, [_] => let '(l, s') := alloc [vbool false] s in RVal l s'
  | PLockAcquire, [l] =>
      match load boolT l s with
      | Some (LitV (LitBool false)) => match store boolT l (vbool true) s with Some s' => RVal vunit s' | None => RStuck "lock.acquire" end
      | Some _ => RFuel
      | None => RStuck "lock.acquire"
      end
  | PLockRelease, [l] =>
      match load boolT l s with
      | Some (LitV (LitBool true)) => match store boolT l (vbool false) s with Some s' => RVal vunit s' | None => RStuck "lock.release" end
      | _ => RStuck "lock.release of a lock that is not held"
      end
  | PNewCond, [l] => let '(c, s') := alloc [l] s in RVal c s'
  | PCondSignal, [_] | PCondBroadcast, [_] => RVal vunit s
  | PCondWait, [_] => RVal vunit s          (* release; acquire — sequentially a no-op *)
  | PCondWaitTimeout, [_; _] => RVal vunit s
  | PWaitGroupNew, [_] => let '(l, s') := alloc [vint 0] s in RVal l s'
  | PWaitGroupAdd, [l; LitV (LitInt n)] =>
      match load uint64T l s with
      | Some (LitV (LitInt c)) => match store uint64T l (vint (c + n)) s with Some s' => RVal vunit s' | None => RStuck "waitgroup.Add" end
      | _ => RStuck "waitgroup.Add"
      end
  | PWaitGroupDone, [l] =>
      match load uint64T l s with
      | Some (LitV (LitInt c)) => match store uint64T l (vint (c - 1)) s with Some s' => RVal vunit s' | None => RStuck "waitgroup.Done" end
      | _ => RStuck "waitgroup.Done"
      end
  | PWaitGroupWait, [l] =>
      match load uint64T l s with
      | Some (LitV (LitInt 0)) => RVal vunit s
      | Some _ => RFuel
      | None => RStuck "waitgroup.Wait"
      end
  | PPanic msg, [_] => RStuck ("Panic: " ++ msg)
  | PAssume, [LitV (LitBool b)] => if b then RVal vunit s else RFuel
  | PAssert, [LitV (LitBool b)] => if b then RVal vunit s else RStuck "Assert"
  | PLinearize, [_] => RVal vunit s
  | PTimeSleep, [_] => RVal vunit s
  | PTimeNow, [_] => RVal (vint 0) s
  | PRandom, [_] => RVal (vint (rand_seed s * 6364136223846793005 + 1442695040888963407))
                         {| heap := heap s; rand_seed := u64 (rand_seed s * 6364136223846793005 + 1442695040888963407) |}
  | PNewProph, [_] => RVal (vint 0) s
  | PResolveProph, [_; _] => RVal vunit s
  | PToU64, [v] => match un_op_eval ToUInt64Op v with Some r => RVal r s | None => RStuck "to_u64" end
  | PToU32, [v] => match un_op_eval ToUInt32Op v with Some r => RVal r s | None => RStuck "to_u32" end
  | PToU8, [v] => match un_op_eval ToUInt8Op v with Some r => RVal r s | None => RStuck "to_u8" end
  | _, _ => RStuck "library function applied to unexpected arguments"
  end.

(* ---------------------------------------------------------------- loops *)
(* The looping library functions are GooseLang programs; fully applied they
   unfold to these expressions (the closures are closed values). *)
Definition U : expr := Val vunit.
Definition for_loop (cond body post : val) : expr :=
  App (Rec (BNamed "__loop") BAnon
         (LetIn (BNamed "__continue")
            (If (App (Val cond) U) (App (Val body) U) (Val (vbool false)))
            (If (Var "__continue")
               (Seq (App (Val post) U) (App (Var "__loop") U))
               U))) U.

Definition for_slice (t : ty) (body sl : val) : expr :=
  LetIn (BNamed "__len") (App (Val (PrimV PSliceLen [])) (Val sl))
    (App (Rec (BNamed "__loop") (BNamed "__i")
            (If (BinOp LtOp (Var "__i") (Var "__len"))
               (LetIn (BNamed "__x") (App (App (Val (PrimV (PSliceGet t) [])) (Val sl)) (Var "__i"))
                  (Seq (App (App (Val body) (Var "__i")) (Var "__x"))
                       (App (Var "__loop") (BinOp PlusOp (Var "__i") (Val (vint 1))))))
               U))
       (Val (vint 0))).

Fixpoint map_iter (body : val) (kvs : list (val * val)) : expr :=
  match kvs with
  | [] => U
  | (k, v) :: t => Seq (App (App (Val body) (Val k)) (Val v)) (map_iter body t)
  end.

Definition expand_loop (p : prim) (args : list val) (s : state) : option expr :=
  match p, args with
  | PFor, [cond; body; post] => Some (for_loop cond body post)
  | PForSlice t, [body; sl] => Some (for_slice t body sl)
  | PMapIter, [LitV (LitLoc b _); body] =>
      match nth_error (heap s) b with Some (BMap kvs _) => Some (map_iter body kvs) | _ => None end
  | _, _ => None
  end.

Definition is_loop (p : prim) : bool :=
  match p with PFor | PForSlice _ | PMapIter => true | _ => false end.

(* ---------------------------------------------------------------- the evaluator *)
(* one unfolding of the evaluator, with the recursive calls abstracted *)
Definition eval_step (rec : expr -> state -> res) (e : expr) (s : state) : res :=
  let apply (vf va : val) (s : state) : res :=
    match vf with
    | RecV fb xb body => rec (subst' xb va (subst' fb vf body)) s
    | PrimV p args =>
        let args' := args ++ [va] in
        if Nat.ltb (length args') (arity p) then RVal (PrimV p args') s
        else if is_loop p then
          match expand_loop p args' s with Some e' => rec e' s | None => RStuck "loop applied to unexpected arguments" end
        else exec_prim p args' s
    | _ => RStuck "application of a non-function"
    end in
  match e with
  | Val v => RVal v s
  | Var x => RStuck ("unbound variable " ++ x)
  | Rec fb xb b => RVal (RecV fb xb b) s
  | App e1 e2 =>
      match rec e2 s with
      | RVal v2 s1 =>
          match rec e1 s1 with
          | RVal v1 s2 => apply v1 v2 s2
          | r => r
          end
      | r => r
      end
  | UnOp op e1 =>
      match rec e1 s with
      | RVal v s1 => match un_op_eval op v with Some r => RVal r s1 | None => RStuck "unary operator" end
      | r => r
      end
  | BinOp op e1 e2 =>
      match rec e2 s with
      | RVal v2 s1 =>
          match rec e1 s1 with
          | RVal v1 s2 => match bin_op_eval op v1 v2 with Some r => RVal r s2 | None => RStuck "binary operator" end
          | r => r
          end
      | r => r
      end
  | If e0 e1 e2 =>
      match rec e0 s with
      | RVal (LitV (LitBool true)) s1 => rec e1 s1
      | RVal (LitV (LitBool false)) s1 => rec e2 s1
      | RVal _ _ => RStuck "if: condition is not a boolean"
      | r => r
      end
  | Pair e1 e2 =>
      match rec e2 s with
      | RVal v2 s1 => match rec e1 s1 with RVal v1 s2 => RVal (PairV v1 v2) s2 | r => r end
      | r => r
      end
  | Fst e1 => match rec e1 s with RVal (PairV a _) s1 => RVal a s1 | RVal _ _ => RStuck "Fst" | r => r end
  | Snd e1 => match rec e1 s with RVal (PairV _ b) s1 => RVal b s1 | RVal _ _ => RStuck "Snd" | r => r end
  | Fork e1 =>
      (* sequential reference run: the child runs to completion at the fork
         point (one admissible schedule; the machine in GlConc.v explores the others) *)
      match rec e1 s with RVal _ s1 => RVal vunit s1 | r => r end
  end.

Fixpoint eval (fuel : nat) : expr -> state -> res :=
  match fuel with
  | O => fun _ _ => RFuel
  | S f => eval_step (eval f)
  end.

Definition run (fuel : nat) (e : expr) : res := eval fuel e state0.
