(* Reference GooseLang: syntax.

   Perennial is not installable in this sandbox; this is the reference calculus
   against which goose's output is read (the emitted .v files compile against
   it through the shim directory mapped to Perennial.goose_lang) and evaluated
   (GlSem.v).  It follows heap_lang (installed: iris/heap_lang/lang.v) and the
   published GooseLang definitions: a call-by-value lambda calculus with
   recursive functions, pairs, machine-word literals, typed memory, and the
   GooseLang libraries (struct, slice, map, lock, ...) as primitive values. *)
From Coq Require Import String List ZArith.
Import ListNotations.

Inductive binder := BAnon | BNamed (s : string).

Inductive ty :=
| uint64T | uint32T | byteT | boolT | stringT | unitT | ptrT
| prodT (a b : ty)
| sliceT (t : ty)
| mapValT (v : ty)            (* mapT v *)
| arrayT (t : ty)
| arrowT_ (args : list ty)
| extT (name : string)        (* disk.blockT-like names, ProphIdT, user-named types *)
| anyT.

(* struct descriptors: field names with their types, in declaration order *)
Definition descriptor := list (string * ty).

Inductive base_lit :=
| LitInt (n : Z) | LitInt32 (n : Z) | LitByte (n : Z)
| LitBool (b : bool) | LitString (s : string) | LitUnit
| LitNull
| LitLoc (block : nat) (off : nat).

Inductive un_op := NegOp | ToUInt64Op | ToUInt32Op | ToUInt8Op.
Inductive bin_op :=
| PlusOp | MinusOp | MultOp | QuotOp | RemOp
| AndOp | OrOp | XorOp | ShiftLOp | ShiftROp
| LeOp | LtOp | EqOp.

(* the library entry points goose can emit, with their static parameters *)
Inductive prim :=
| PRefTo (t : ty) | PRef | PLoad (t : ty) | PStore (t : ty) | PZeroArray (t : ty)
| PStructGet (d : descriptor) (f : string) | PStructLoadF (d : descriptor) (f : string)
| PStructStoreF (d : descriptor) (f : string) | PStructFieldRef (d : descriptor) (f : string)
| PStructLoad (d : descriptor) | PStructStore (d : descriptor) | PStructAlloc (d : descriptor)
| PSliceLen | PSliceCap | PNewSlice (t : ty) | PNewSliceWithCap (t : ty)
| PSliceGet (t : ty) | PSliceSet (t : ty) | PSliceRef (t : ty)
| PSliceSkip (t : ty) | PSliceTake | PSliceSubslice (t : ty)
| PSliceAppend (t : ty) | PSliceAppendSlice (t : ty) | PSliceCopy (t : ty) | PSliceSingleton
| PNewMap (k v : ty) | PMapGet | PMapInsert | PMapDelete | PMapLen | PMapClear
| PStringLength | PStringToBytes | PStringFromBytes | PUInt64ToString
| PUInt64Get | PUInt64Put | PUInt32Get | PUInt32Put
| PLockNew | PLockAcquire | PLockRelease | PNewCond | PCondSignal | PCondBroadcast | PCondWait | PCondWaitTimeout
| PWaitGroupNew | PWaitGroupAdd | PWaitGroupDone | PWaitGroupWait
| PPanic (msg : string) | PAssume | PAssert | PExit | PLinearize
| PTimeSleep | PTimeNow | PRandom | PNewProph | PResolveProph
| PFor | PForSlice (t : ty) | PMapIter | PToU64 | PToU32 | PToU8
| PExt (name : string).      (* FFI and imported-package functions: no semantics here *)

Inductive expr :=
| Val (v : val)
| Var (x : string)
| Rec (f x : binder) (e : expr)
| App (e1 e2 : expr)
| UnOp (op : un_op) (e : expr)
| BinOp (op : bin_op) (e1 e2 : expr)
| If (e0 e1 e2 : expr)
| Pair (e1 e2 : expr)
| Fst (e : expr)
| Snd (e : expr)
| Fork (e : expr)
with val :=
| LitV (l : base_lit)
| RecV (f x : binder) (e : expr)
| PairV (v1 v2 : val)
| PrimV (p : prim) (args : list val).      (* a library function applied to some of its arguments *)

(* zero values *)
Fixpoint zero_val (t : ty) : val :=
  match t with
  | uint64T => LitV (LitInt 0)
  | uint32T => LitV (LitInt32 0)
  | byteT => LitV (LitByte 0)
  | boolT => LitV (LitBool false)
  | stringT => LitV (LitString "")
  | unitT => LitV LitUnit
  | prodT a b => PairV (zero_val a) (zero_val b)
  | sliceT _ => PairV (LitV LitNull) (PairV (LitV (LitInt 0)) (LitV (LitInt 0)))
  | ptrT | mapValT _ | arrayT _ | arrowT_ _ | extT _ | anyT => LitV LitNull
  end.

(* struct descriptors denote right-nested products ending in unit *)
Fixpoint struct_ty (d : descriptor) : ty :=
  match d with
  | [] => unitT
  | (_, t) :: d' => prodT t (struct_ty d')
  end.

Fixpoint field_lookup (f : string) (fs : list (string * expr)) : option expr :=
  match fs with
  | [] => None
  | (g, e) :: t => if String.eqb f g then Some e else field_lookup f t
  end.

(* struct.mk d fs: the tuple of the field expressions in descriptor order, zero
   values for the fields not mentioned *)
Fixpoint struct_mk (d : descriptor) (fs : list (string * expr)) : expr :=
  match d with
  | [] => Val (LitV LitUnit)
  | (f, t) :: d' =>
      Pair (match field_lookup f fs with Some e => e | None => Val (zero_val t) end) (struct_mk d' fs)
  end.

Definition Lam (x : binder) (e : expr) : expr := Rec BAnon x e.
Definition LamV (x : binder) (e : expr) : val := RecV BAnon x e.
Definition LetIn (x : binder) (e1 e2 : expr) : expr := App (Lam x e2) e1.
Definition Seq (e1 e2 : expr) : expr := LetIn BAnon e1 e2.
