(* The reference interpreter is monotone in its fuel: a result other than
   "out of fuel" is the result for every larger fuel, so the meaning of a
   program does not depend on the fuel it is run with. *)
From Coq Require Import String List ZArith Lia.
From GV Require Import Lang.GlSyntax Lang.GlSem.
Import ListNotations.
Local Open Scope nat_scope.

Definition below (f g : expr -> state -> res) : Prop :=
  forall e s r, f e s = r -> r <> RFuel -> g e s = r.

Ltac sub f Hfg :=
  match goal with
  | H : context [f ?e ?s] |- _ =>
      let E := fresh "E" in
      destruct (f e s) eqn:E;
      [ rewrite (Hfg _ _ _ E ltac:(discriminate))
      | rewrite (Hfg _ _ _ E ltac:(discriminate))
      | subst; congruence ]
  end.

Lemma eval_step_mono f g : below f g -> below (eval_step f) (eval_step g).
Proof.
  intros Hfg e s r H Hr. unfold eval_step in *.
  destruct e; try exact H.
  - (* App *)
    sub f Hfg; [|exact H].
    sub f Hfg; [|exact H].
    destruct v0; try exact H.
    + apply Hfg; assumption.
    + destruct (Nat.ltb _ _); [exact H|].
      destruct (is_loop p); [|exact H].
      destruct (expand_loop _ _ _); [|exact H].
      apply Hfg; assumption.
  - sub f Hfg; exact H.
  - sub f Hfg; [|exact H]. sub f Hfg; exact H.
  - sub f Hfg; [|exact H].
    destruct v; try exact H. destruct l; try exact H. destruct b; apply Hfg; assumption.
  - sub f Hfg; [|exact H]. sub f Hfg; exact H.
  - sub f Hfg; exact H.
  - sub f Hfg; exact H.
  - sub f Hfg; exact H.
Qed.

Lemma eval_S n : below (eval n) (eval (S n)).
Proof.
  induction n as [|n IH].
  - intros e s r H Hr. simpl in H. congruence.
  - change (eval (S (S n))) with (eval_step (eval (S n))).
    change (eval (S n)) with (eval_step (eval n)) at 1.
    apply eval_step_mono, IH.
Qed.

Lemma eval_mono n m : n <= m -> below (eval n) (eval m).
Proof.
  induction 1 as [|m Hle IH].
  - intros e s r H _. exact H.
  - intros e s r H Hr. apply eval_S; [apply IH; assumption|assumption].
Qed.

(* two runs that both finish agree, whatever their fuels *)
Lemma eval_fuel_irrelevant n m e s r1 r2 :
  eval n e s = r1 -> eval m e s = r2 -> r1 <> RFuel -> r2 <> RFuel -> r1 = r2.
Proof.
  intros H1 H2 N1 N2.
  pose proof (eval_mono n (n + m) ltac:(lia) e s r1 H1 N1) as A.
  pose proof (eval_mono m (n + m) ltac:(lia) e s r2 H2 N2) as B.
  congruence.
Qed.
