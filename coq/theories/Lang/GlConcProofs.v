(* The explorer reports only real behaviours: every result, deadlock-free or
   not, that explore lists is reached by an explicit schedule of the machine. *)
From Coq Require Import String List ZArith Bool Lia.
From GV Require Import Lang.GlSyntax Lang.GlSem Lang.GlConc.
Import ListNotations.
Local Open Scope nat_scope.

(* a schedule: which thread takes its next visible step, or the forced wake-up
   of the waiting threads when nobody else can move *)
Inductive act := AStep (i : nat) | AWake.

Fixpoint run_acts (lfuel : nat) (acts : list act) (pool : list thread) (s : state) : option (list thread * state) :=
  match acts with
  | [] => Some (pool, s)
  | AStep i :: acts' =>
      match sched_step lfuel pool s i with
      | Some (pool', s', _) => run_acts lfuel acts' pool' s'
      | None => None
      end
  | AWake :: acts' => run_acts lfuel acts' (wake pool) s
  end.

Lemma in_add_outcome x o l : In x (add_outcome o l) -> x = o \/ In x l.
Proof.
  induction l as [|y l IH]; cbn.
  - intros [<-|[]]. auto.
  - destruct (outcome_eqb o y); cbn; [auto|]. intros [<-|H]; [auto|]. destruct (IH H); auto.
Qed.

Lemma in_union x a b : In x (union a b) -> In x a \/ In x b.
Proof.
  unfold union. revert a; induction b as [|o b IH]; cbn; intros a H; [auto|].
  destruct (IH _ H) as [H1|H1]; [|auto]. destruct (in_add_outcome _ _ _ H1) as [->|H2]; auto.
Qed.

Lemma in_fold_union {X} (f : X -> list outcome) x : forall l acc,
  In x (fold_left (fun acc p => union acc (f p)) l acc) -> In x acc \/ exists p, In p l /\ In x (f p).
Proof.
  induction l as [|p l IH]; cbn; intros acc H; [auto|].
  destruct (IH _ H) as [H1|(q & Hq & Hx)].
  - destruct (in_union _ _ _ H1) as [H2|H2]; [auto|]. right. exists p. auto.
  - right. exists q. auto.
Qed.

Lemma in_nexts lfuel pool s ps :
  In ps (nexts_of lfuel pool s) -> exists i, sched_step lfuel pool s i = Some ps.
Proof.
  unfold nexts_of. intros H. apply in_flat_map in H as (i & _ & Hi).
  destruct (sched_step lfuel pool s i) as [q|] eqn:E; [|destruct Hi]. destruct Hi as [<-|[]]. eauto.
Qed.

(* the main thread of a pool finished with v *)
Definition main_done (lfuel : nat) (pool : list thread) (s : state) (v : val) : Prop :=
  exists t rest, pool = t :: rest /\ advance lfuel (fst t) s = MDone v.

Theorem explore_done_sound : forall fuel lfuel stale pool s v,
  In (ODone v) (explore fuel lfuel stale pool s) ->
  exists acts pool' s', run_acts lfuel acts pool s = Some (pool', s') /\ main_done lfuel pool' s' v.
Proof.
  induction fuel as [|f IH]; intros lfuel stale pool s v Hin; [destruct Hin as [H|[]]; discriminate|].
  cbn [explore] in Hin.
  assert (Hrec : forall st (nexts : list (list thread * state * bool)),
            (forall ps, In ps nexts -> exists acts0, run_acts lfuel acts0 pool s = Some (fst ps)) ->
            In (ODone v) (fold_left (fun (acc : list outcome) (ps : list thread * state * bool) =>
                                       union acc (explore f lfuel (if snd ps then 0 else st) (fst (fst ps)) (snd (fst ps)))) nexts []) ->
            exists acts pool' s', run_acts lfuel acts pool s = Some (pool', s') /\ main_done lfuel pool' s' v).
  { intros st nexts Hn H.
    apply (in_fold_union (fun ps : list thread * state * bool => explore f lfuel (if snd ps then 0 else st) (fst (fst ps)) (snd (fst ps)))) in H
      as [[]|(ps & Hps & Hx)].
    destruct (IH _ _ _ _ _ Hx) as (acts & pool' & s' & Hr & Hd).
    destruct (Hn ps Hps) as (acts0 & H0).
    exists (acts0 ++ acts)%list, pool', s'. split; [|exact Hd].
    clear -H0 Hr. destruct ps as [[p1 s1] b]. cbn [fst snd] in *.
    revert pool s H0. induction acts0 as [|a acts0 IHa]; intros pool s H0; cbn [app run_acts] in *.
    - injection H0 as -> ->. exact Hr.
    - destruct a as [i|].
      + destruct (sched_step lfuel pool s i) as [[[p2 s2] b2]|]; [|discriminate]. apply IHa, H0.
      + apply IHa, H0. }
  destruct (classify lfuel pool s) as [|m ms] eqn:Ec.
  - (* no thread at all *)
    cbn in Hin. destruct pool; [|discriminate]. cbn in Hin. destruct Hin as [H|[]]; discriminate.
  - destruct m as [v0|e' s' fk y pr| |w|].
    + (* the main thread is done *)
      destruct Hin as [[= <-]|[]]. exists [], pool, s. split; [reflexivity|].
      destruct pool as [|t rest]; [discriminate|]. cbn in Ec. injection Ec as Ec _. exists t, rest. auto.
    + destruct (flat_map _ (MStep e' s' fk y pr :: ms)) as [|w ws]; [|destruct Hin as [H|[]]; discriminate].
      destruct (existsb _ (MStep e' s' fk y pr :: ms)); [destruct Hin as [H|[]]; discriminate|].
      destruct (nexts_of lfuel pool s) as [|n0 ns] eqn:En.
      * destruct (existsb (fun t => snd t) pool); [|destruct Hin as [H|[]]; discriminate].
        destruct (Nat.ltb 1 stale); [destruct Hin as [H|[]]; discriminate|].
        destruct (nexts_of lfuel (wake pool) s) as [|n1 ns1] eqn:En1; [destruct Hin as [H|[]]; discriminate|].
        eapply Hrec; [|exact Hin]. intros ps Hps. rewrite <- En1 in Hps. apply in_nexts in Hps as (i & Hi).
        exists [AWake; AStep i]. cbn [run_acts]. rewrite Hi. destruct ps as [[? ?] ?]. reflexivity.
      * eapply Hrec; [|exact Hin]. intros ps Hps. rewrite <- En in Hps. apply in_nexts in Hps as (i & Hi).
        exists [AStep i]. cbn [run_acts]. rewrite Hi. destruct ps as [[? ?] ?]. reflexivity.
    + destruct (flat_map _ (MBlocked :: ms)) as [|w ws]; [|destruct Hin as [H|[]]; discriminate].
      destruct (existsb _ (MBlocked :: ms)); [destruct Hin as [H|[]]; discriminate|].
      destruct (nexts_of lfuel pool s) as [|n0 ns] eqn:En.
      * destruct (existsb (fun t => snd t) pool); [|destruct Hin as [H|[]]; discriminate].
        destruct (Nat.ltb 1 stale); [destruct Hin as [H|[]]; discriminate|].
        destruct (nexts_of lfuel (wake pool) s) as [|n1 ns1] eqn:En1; [destruct Hin as [H|[]]; discriminate|].
        eapply Hrec; [|exact Hin]. intros ps Hps. rewrite <- En1 in Hps. apply in_nexts in Hps as (i & Hi).
        exists [AWake; AStep i]. cbn [run_acts]. rewrite Hi. destruct ps as [[? ?] ?]. reflexivity.
      * eapply Hrec; [|exact Hin]. intros ps Hps. rewrite <- En in Hps. apply in_nexts in Hps as (i & Hi).
        exists [AStep i]. cbn [run_acts]. rewrite Hi. destruct ps as [[? ?] ?]. reflexivity.
    + cbn [flat_map is_stuck app] in Hin. destruct Hin as [H|[]]; discriminate.
    + destruct (flat_map _ (MFuel :: ms)) as [|w ws]; [|destruct Hin as [H|[]]; discriminate].
      cbn [existsb] in Hin. destruct Hin as [H|[]]; discriminate.
Qed.

(* in a pool of one thread that never forks, only that thread can be scheduled *)
Lemma sched_step_range lfuel pool s i ps : sched_step lfuel pool s i = Some ps -> i < length pool.
Proof.
  unfold sched_step. destruct (nth_error pool i) eqn:E; [|discriminate]. intros _.
  apply nth_error_Some. congruence.
Qed.

(* ---------------------------------------------------------------- locks *)
Definition read_lock (b : nat) (s : state) : option bool :=
  match nth_error (heap s) b with
  | Some (BCells [LitV (LitBool x)]) => Some x
  | _ => None
  end.

Lemma nth_set_nth_same {X} (l : list X) i x y : nth_error l i = Some y -> nth_error (GlSem.set_nth l i x) i = Some x.
Proof. revert i; induction l as [|a l IH]; intros [|i]; cbn; try discriminate; auto. Qed.

Lemma lock_semantics b s :
  (read_lock b s = Some false -> exists s', exec_prim PLockAcquire [LitV (LitLoc b 0)] s = RVal (LitV LitUnit) s' /\ read_lock b s' = Some true) /\
  (read_lock b s = Some true -> exec_prim PLockAcquire [LitV (LitLoc b 0)] s = RFuel) /\
  (read_lock b s = Some true -> exists s', exec_prim PLockRelease [LitV (LitLoc b 0)] s = RVal (LitV LitUnit) s' /\ read_lock b s' = Some false) /\
  (read_lock b s = Some false -> exists w, exec_prim PLockRelease [LitV (LitLoc b 0)] s = RStuck w).
Proof.
  unfold read_lock. cbn [exec_prim]. unfold load, store, read_cells, write_cells. cbn [ty_size].
  destruct (nth_error (heap s) b) as [[[|[[| | |x| | | |]| | |] [|? ?]]|]|] eqn:E; repeat split; intros H; try discriminate.
  all: injection H as ->; cbn.
  - eexists. split; [reflexivity|]. cbn [heap]. rewrite (nth_set_nth_same _ _ _ _ E). reflexivity.
  - reflexivity.
  - eexists. split; [reflexivity|]. cbn [heap]. rewrite (nth_set_nth_same _ _ _ _ E). reflexivity.
  - eexists. reflexivity.
Qed.
