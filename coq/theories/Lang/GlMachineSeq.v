(* The machine of GlConc.v, run on one thread, computes nothing the sequential
   reference semantics (GlSem.eval) does not: every value and final state a
   run of step1 reaches — with forked children run to completion at the fork
   point, the schedule eval itself uses — is the result of eval.  The concurrent
   semantics used for C03 is thereby tied, for all programs, to the sequential
   one that C01/C02 use and that the upstream semantics suite validates. *)
From Coq Require Import String List ZArith Bool Lia.
From GV Require Import Lang.GlSyntax Lang.GlSem Lang.GlSemProofs Lang.GlConc Tr.MiniGo Tr.MiniGoProofs.
Import ListNotations.
Local Open Scope nat_scope.

(* run the machine on one expression; a forked child is run first, to completion *)
Fixpoint mrun (k : nat) (e : expr) (s : state) : option (val * state) :=
  match k with
  | O => None
  | S k' =>
      match step1 e s with
      | SVal v => Some (v, s)
      | SPure e' => mrun k' e' s
      | SMem e' s' _ => mrun k' e' s'
      | SFork e' c => match mrun k' c s with Some (_, s1) => mrun k' e' s1 | None => None end
      | SYield _ _ | SBlocked | SStuck _ => None
      end
  end.

(* (e, s) evaluates to whatever (e', s') evaluates to *)
Definition sim2 (e : expr) (s : state) (e' : expr) (s' : state) : Prop :=
  forall w s1, evals e' s' w s1 -> evals e s w s1.

(* ---------------------------------------------------------------- evaluation contexts *)
Inductive frame :=
| FAppR (e1 : expr) | FAppL (v2 : val)
| FUnOp (op : un_op)
| FBinR (op : bin_op) (e1 : expr) | FBinL (op : bin_op) (v2 : val)
| FIf (e1 e2 : expr)
| FPairR (e1 : expr) | FPairL (v2 : val)
| FFst | FSnd.

Definition fill (f : frame) (e : expr) : expr :=
  match f with
  | FAppR e1 => App e1 e
  | FAppL v2 => App e (Val v2)
  | FUnOp op => UnOp op e
  | FBinR op e1 => BinOp op e1 e
  | FBinL op v2 => BinOp op e (Val v2)
  | FIf e1 e2 => If e e1 e2
  | FPairR e1 => Pair e1 e
  | FPairL v2 => Pair e (Val v2)
  | FFst => Fst e
  | FSnd => Snd e
  end.

Lemma eval_val_S n v s : eval (S n) (Val v) s = RVal v s.
Proof. reflexivity. Qed.

(* an evaluation of a filled frame first evaluates the hole *)
Lemma fill_decompose f e s w s1 :
  evals (fill f e) s w s1 -> exists v sa, evals e s v sa /\ evals (fill f (Val v)) sa w s1.
Proof.
  intros [n H]. destruct n as [|n]; [discriminate|]. rewrite eval_S_unfold in H.
  destruct f; cbn [fill] in *; unfold eval_step at 1 in H.
  - (* App e1 [] *)
    destruct (eval n e s) as [v sa| |] eqn:E; try discriminate.
    exists v, sa. split; [exists n; exact E|]. destruct n as [|n]; [discriminate|].
    exists (S (S n)). rewrite eval_S_unfold. unfold eval_step at 1. rewrite eval_val_S. exact H.
  - (* App [] v2 *)
    destruct n as [|n]; [discriminate|]. rewrite eval_val_S in H.
    destruct (eval (S n) e s) as [v sa| |] eqn:E; try discriminate.
    exists v, sa. split; [exists (S n); exact E|].
    exists (S (S n)). rewrite eval_S_unfold. unfold eval_step at 1. rewrite !eval_val_S. exact H.
  - destruct (eval n e s) as [v sa| |] eqn:E; try discriminate.
    exists v, sa. split; [exists n; exact E|]. destruct n as [|n]; [discriminate|].
    exists (S (S n)). rewrite eval_S_unfold. unfold eval_step at 1. rewrite eval_val_S. exact H.
  - destruct (eval n e s) as [v sa| |] eqn:E; try discriminate.
    exists v, sa. split; [exists n; exact E|]. destruct n as [|n]; [discriminate|].
    exists (S (S n)). rewrite eval_S_unfold. unfold eval_step at 1. rewrite eval_val_S. exact H.
  - destruct n as [|n]; [discriminate|]. rewrite eval_val_S in H.
    destruct (eval (S n) e s) as [v sa| |] eqn:E; try discriminate.
    exists v, sa. split; [exists (S n); exact E|].
    exists (S (S n)). rewrite eval_S_unfold. unfold eval_step at 1. rewrite !eval_val_S. exact H.
  - destruct (eval n e s) as [v sa| |] eqn:E; try discriminate.
    exists v, sa. split; [exists n; exact E|]. destruct n as [|n]; [discriminate|].
    exists (S (S n)). rewrite eval_S_unfold. unfold eval_step at 1. rewrite eval_val_S. exact H.
  - destruct (eval n e s) as [v sa| |] eqn:E; try discriminate.
    exists v, sa. split; [exists n; exact E|]. destruct n as [|n]; [discriminate|].
    exists (S (S n)). rewrite eval_S_unfold. unfold eval_step at 1. rewrite eval_val_S. exact H.
  - destruct n as [|n]; [discriminate|]. rewrite eval_val_S in H.
    destruct (eval (S n) e s) as [v sa| |] eqn:E; try discriminate.
    exists v, sa. split; [exists (S n); exact E|].
    exists (S (S n)). rewrite eval_S_unfold. unfold eval_step at 1. rewrite !eval_val_S. exact H.
  - destruct (eval n e s) as [v sa| |] eqn:E; try discriminate.
    exists v, sa. split; [exists n; exact E|]. destruct n as [|n]; [discriminate|].
    exists (S (S n)). rewrite eval_S_unfold. unfold eval_step at 1. rewrite eval_val_S. exact H.
  - destruct (eval n e s) as [v sa| |] eqn:E; try discriminate.
    exists v, sa. split; [exists n; exact E|]. destruct n as [|n]; [discriminate|].
    exists (S (S n)). rewrite eval_S_unfold. unfold eval_step at 1. rewrite eval_val_S. exact H.
Qed.

(* ... and conversely *)
Lemma fill_compose f e s v sa w s1 :
  evals e s v sa -> evals (fill f (Val v)) sa w s1 -> evals (fill f e) s w s1.
Proof.
  intros [m Hm] [n Hn].
  set (K := S (m + n)).
  pose proof (evals_fuel _ _ _ _ _ K Hm ltac:(unfold K; lia)) as Hm'.
  pose proof (evals_fuel _ _ _ _ _ (S K) Hn ltac:(unfold K; lia)) as Hn'.
  exists (S K). rewrite eval_S_unfold in Hn' |- *.
  destruct f; cbn [fill] in *; unfold eval_step at 1 in Hn'; unfold eval_step at 1; unfold K in Hn' at 1; try rewrite eval_val_S in Hn'.
  - fold K in Hn'. rewrite Hm'. exact Hn'.
  - unfold K at 1. rewrite eval_val_S. fold K. unfold K in Hn' at 1. rewrite eval_val_S in Hn'. fold K in Hn'. rewrite Hm'. exact Hn'.
  - fold K in Hn'. rewrite Hm'. exact Hn'.
  - fold K in Hn'. rewrite Hm'. exact Hn'.
  - unfold K at 1. rewrite eval_val_S. fold K. unfold K in Hn' at 1. rewrite eval_val_S in Hn'. fold K in Hn'. rewrite Hm'. exact Hn'.
  - fold K in Hn'. rewrite Hm'. exact Hn'.
  - fold K in Hn'. rewrite Hm'. exact Hn'.
  - unfold K at 1. rewrite eval_val_S. fold K. unfold K in Hn' at 1. rewrite eval_val_S in Hn'. fold K in Hn'. rewrite Hm'. exact Hn'.
  - fold K in Hn'. rewrite Hm'. exact Hn'.
  - fold K in Hn'. rewrite Hm'. exact Hn'.
Qed.

Lemma sim2_fill f e s e' s' : sim2 e s e' s' -> sim2 (fill f e) s (fill f e') s'.
Proof.
  intros H w s1 Hev. destruct (fill_decompose _ _ _ _ _ Hev) as (v & sa & He & Hf).
  exact (fill_compose f e s v sa w s1 (H _ _ He) Hf).
Qed.

(* ---------------------------------------------------------------- single steps *)
Lemma in_ctx_not_val k r v : in_ctx k r <> SVal v.
Proof. destruct r; discriminate. Qed.

Lemma apply_step_not_val vf va s v : apply_step vf va s <> SVal v.
Proof.
  unfold apply_step. destruct vf as [l|fb xb body|v1 v2|p args]; try discriminate.
  destruct (Nat.ltb _ _); [discriminate|]. destruct (is_loop p); [destruct (expand_loop _ _ _); discriminate|].
  destruct p; try (destruct (exec_prim _ _ _); discriminate);
    destruct (args ++ [va])%list as [|c [|c2 [|c3 rest]]];
    try (destruct (exec_prim _ _ _); discriminate);
    destruct (cond_lock _ _); try discriminate; destruct (exec_prim _ _ _); discriminate.
Qed.

Lemma step1_val e s v : step1 e s = SVal v -> e = Val v.
Proof.
  destruct e; cbn [step1]; intros H; try discriminate.
  - congruence.
  - destruct (step1 e2 s); try (exfalso; exact (in_ctx_not_val _ _ _ H)).
    destruct (step1 e1 s); try (exfalso; exact (in_ctx_not_val _ _ _ H)).
    exfalso; exact (apply_step_not_val _ _ _ _ H).
  - destruct (step1 e s); try (exfalso; exact (in_ctx_not_val _ _ _ H)). destruct (un_op_eval _ _); discriminate.
  - destruct (step1 e2 s); try (exfalso; exact (in_ctx_not_val _ _ _ H)).
    destruct (step1 e1 s); try (exfalso; exact (in_ctx_not_val _ _ _ H)). destruct (bin_op_eval _ _ _); discriminate.
  - destruct (step1 e1 s) as [[[| | |[|]| | | |]| | |]| | | | | |]; try discriminate; try (exfalso; exact (in_ctx_not_val _ _ _ H)).
  - destruct (step1 e2 s); try (exfalso; exact (in_ctx_not_val _ _ _ H)).
    destruct (step1 e1 s); try (exfalso; exact (in_ctx_not_val _ _ _ H)). discriminate.
  - destruct (step1 e s) as [[| | |]| | | | | |]; try discriminate; try (exfalso; exact (in_ctx_not_val _ _ _ H)).
  - destruct (step1 e s) as [[| | |]| | | | | |]; try discriminate; try (exfalso; exact (in_ctx_not_val _ _ _ H)).
Qed.

Definition step_ok (e : expr) (s : state) (r : sres) : Prop :=
  match r with
  | SPure e' => sim2 e s e' s
  | SMem e' s' _ => sim2 e s e' s'
  | SFork e' c => forall w sc, evals c s w sc -> sim2 e s e' sc
  | SVal _ | SYield _ _ | SBlocked | SStuck _ => True
  end.

Lemma evals_of_val v s w s1 : evals (Val v) s w s1 -> w = v /\ s1 = s.
Proof. intros [n H]. destruct n; [discriminate|]. cbn in H. injection H as <- <-. auto. Qed.

Lemma apply_step_ok vf va s : step_ok (App (Val vf) (Val va)) s (apply_step vf va s).
Proof.
  unfold apply_step. destruct vf as [l|fb xb body|v1 v2|p args]; try exact I.
  - (* a closure *)
    cbn [step_ok]. intros w s1 [n H]. exists (S (S n)). rewrite eval_S_unfold. unfold eval_step at 1.
    rewrite !eval_val_S. apply (evals_fuel _ _ _ _ _ (S n) H). lia.
  - cbv zeta. set (args' := (args ++ [va])%list).
    destruct (Nat.ltb (length args') (arity p)) eqn:El.
    + (* partial application *)
      cbn [step_ok]. intros w s1 Hv. apply evals_of_val in Hv as [-> ->].
      exists 2. rewrite eval_S_unfold. unfold eval_step at 1. rewrite !eval_val_S. fold args'. rewrite El. reflexivity.
    + destruct (is_loop p) eqn:Eloop.
      * destruct (expand_loop p args' s) as [e'|] eqn:Ex; [|exact I].
        cbn [step_ok]. intros w s1 [n H]. exists (S (S n)). rewrite eval_S_unfold. unfold eval_step at 1.
        rewrite !eval_val_S. fold args'. rewrite El, Eloop, Ex. apply (evals_fuel _ _ _ _ _ (S n) H). lia.
      * assert (Hgen : step_ok (App (Val (PrimV p args)) (Val va)) s
                         (match exec_prim p args' s with
                          | RVal v s' => SMem (Val v) s' (is_progress p)
                          | RStuck w => SStuck w
                          | RFuel => SBlocked
                          end)).
        { destruct (exec_prim p args' s) as [v s'| |] eqn:Ee; try exact I.
          cbn [step_ok]. intros w s1 Hv. apply evals_of_val in Hv as [-> ->].
          exists 2. rewrite eval_S_unfold. unfold eval_step at 1. rewrite !eval_val_S. fold args'. rewrite El, Eloop. exact Ee. }
        destruct p; try exact Hgen;
          destruct args' as [|c [|c2 [|c3 rest]]]; try exact Hgen;
          (destruct (cond_lock c s); [|exact I]); destruct (exec_prim PLockRelease _ s); exact I.
Qed.

Lemma step_ok_in_ctx f e s r :
  step_ok e s r -> (forall v, r <> SVal v) -> step_ok (fill f e) s (in_ctx (fill f) r).
Proof.
  destruct r as [v|e'|e' s' pr|e' c|e' s'| |w]; cbn [step_ok in_ctx]; intros H Hv; try exact I.
  - apply sim2_fill, H.
  - apply sim2_fill, H.
  - intros w sc Hc. apply sim2_fill, (H w sc Hc).
Qed.

Lemma sim2_pure_head e s e' : (forall n w s1, eval n e' s = RVal w s1 -> evals e s w s1) -> sim2 e s e' s.
Proof. intros H w s1 [n Hn]. exact (H n w s1 Hn). Qed.

Lemma step1_ok : forall e s, step_ok e s (step1 e s).
Proof.
  induction e as [v|x|fb xb b|e1 IH1 e2 IH2|op e1 IH1|op e1 IH1 e2 IH2|e0 IH0 e1 IH1 e2 IH2|e1 IH1 e2 IH2|e1 IH1|e1 IH1|e1 IH1];
    intros s; cbn [step1]; try exact I.
  - (* Rec *)
    cbn [step_ok]. intros w s1 Hv. apply evals_of_val in Hv as [-> ->]. exists 1. reflexivity.
  - (* App *)
    destruct (step1 e2 s) as [v2| | | | | |] eqn:E2.
    + apply step1_val in E2 as ->.
      destruct (step1 e1 s) as [v1| | | | | |] eqn:E1.
      * apply step1_val in E1 as ->. apply apply_step_ok.
      * rewrite <- E1. apply (step_ok_in_ctx (FAppL v2)); [apply IH1|rewrite E1; discriminate].
      * rewrite <- E1. apply (step_ok_in_ctx (FAppL v2)); [apply IH1|rewrite E1; discriminate].
      * rewrite <- E1. apply (step_ok_in_ctx (FAppL v2)); [apply IH1|rewrite E1; discriminate].
      * exact I.
      * exact I.
      * exact I.
    + rewrite <- E2. apply (step_ok_in_ctx (FAppR e1)); [apply IH2|rewrite E2; discriminate].
    + rewrite <- E2. apply (step_ok_in_ctx (FAppR e1)); [apply IH2|rewrite E2; discriminate].
    + rewrite <- E2. apply (step_ok_in_ctx (FAppR e1)); [apply IH2|rewrite E2; discriminate].
    + exact I.
    + exact I.
    + exact I.
  - (* UnOp *)
    destruct (step1 e1 s) as [v1| | | | | |] eqn:E1; try exact I.
    + apply step1_val in E1 as ->. destruct (un_op_eval op v1) as [r|] eqn:Eo; [|exact I].
      cbn [step_ok]. intros w s1 Hv. apply evals_of_val in Hv as [-> ->].
      exists 2. rewrite eval_S_unfold. unfold eval_step at 1. rewrite eval_val_S, Eo. reflexivity.
    + rewrite <- E1. apply (step_ok_in_ctx (FUnOp op)); [apply IH1|rewrite E1; discriminate].
    + rewrite <- E1. apply (step_ok_in_ctx (FUnOp op)); [apply IH1|rewrite E1; discriminate].
    + rewrite <- E1. apply (step_ok_in_ctx (FUnOp op)); [apply IH1|rewrite E1; discriminate].
  - (* BinOp *)
    destruct (step1 e2 s) as [v2| | | | | |] eqn:E2; try exact I.
    + apply step1_val in E2 as ->.
      destruct (step1 e1 s) as [v1| | | | | |] eqn:E1; try exact I.
      * apply step1_val in E1 as ->. destruct (bin_op_eval op v1 v2) as [r|] eqn:Eo; [|exact I].
        cbn [step_ok]. intros w s1 Hv. apply evals_of_val in Hv as [-> ->].
        exists 2. rewrite eval_S_unfold. unfold eval_step at 1. rewrite !eval_val_S, Eo. reflexivity.
      * rewrite <- E1. apply (step_ok_in_ctx (FBinL op v2)); [apply IH1|rewrite E1; discriminate].
      * rewrite <- E1. apply (step_ok_in_ctx (FBinL op v2)); [apply IH1|rewrite E1; discriminate].
      * rewrite <- E1. apply (step_ok_in_ctx (FBinL op v2)); [apply IH1|rewrite E1; discriminate].
    + rewrite <- E2. apply (step_ok_in_ctx (FBinR op e1)); [apply IH2|rewrite E2; discriminate].
    + rewrite <- E2. apply (step_ok_in_ctx (FBinR op e1)); [apply IH2|rewrite E2; discriminate].
    + rewrite <- E2. apply (step_ok_in_ctx (FBinR op e1)); [apply IH2|rewrite E2; discriminate].
  - (* If *)
    destruct (step1 e0 s) as [v0| | | | | |] eqn:E0; try exact I.
    + apply step1_val in E0 as ->.
      destruct v0 as [[| | |[|]| | | |]| | |]; try exact I; cbn [step_ok]; apply sim2_pure_head; intros n w s1 H;
        exists (S (S n)); rewrite eval_S_unfold; unfold eval_step at 1; rewrite eval_val_S; apply (evals_fuel _ _ _ _ _ (S n) H); lia.
    + rewrite <- E0. apply (step_ok_in_ctx (FIf e1 e2)); [apply IH0|rewrite E0; discriminate].
    + rewrite <- E0. apply (step_ok_in_ctx (FIf e1 e2)); [apply IH0|rewrite E0; discriminate].
    + rewrite <- E0. apply (step_ok_in_ctx (FIf e1 e2)); [apply IH0|rewrite E0; discriminate].
  - (* Pair *)
    destruct (step1 e2 s) as [v2| | | | | |] eqn:E2; try exact I.
    + apply step1_val in E2 as ->.
      destruct (step1 e1 s) as [v1| | | | | |] eqn:E1; try exact I.
      * apply step1_val in E1 as ->.
        cbn [step_ok]. intros w s1 Hv. apply evals_of_val in Hv as [-> ->].
        exists 2. rewrite eval_S_unfold. unfold eval_step at 1. rewrite !eval_val_S. reflexivity.
      * rewrite <- E1. apply (step_ok_in_ctx (FPairL v2)); [apply IH1|rewrite E1; discriminate].
      * rewrite <- E1. apply (step_ok_in_ctx (FPairL v2)); [apply IH1|rewrite E1; discriminate].
      * rewrite <- E1. apply (step_ok_in_ctx (FPairL v2)); [apply IH1|rewrite E1; discriminate].
    + rewrite <- E2. apply (step_ok_in_ctx (FPairR e1)); [apply IH2|rewrite E2; discriminate].
    + rewrite <- E2. apply (step_ok_in_ctx (FPairR e1)); [apply IH2|rewrite E2; discriminate].
    + rewrite <- E2. apply (step_ok_in_ctx (FPairR e1)); [apply IH2|rewrite E2; discriminate].
  - (* Fst *)
    destruct (step1 e1 s) as [v1| | | | | |] eqn:E1; try exact I.
    + apply step1_val in E1 as ->. destruct v1 as [|  |a b|]; try exact I.
      cbn [step_ok]. intros w s1 Hv. apply evals_of_val in Hv as [-> ->].
      exists 2. rewrite eval_S_unfold. unfold eval_step at 1. rewrite eval_val_S. reflexivity.
    + rewrite <- E1. apply (step_ok_in_ctx FFst); [apply IH1|rewrite E1; discriminate].
    + rewrite <- E1. apply (step_ok_in_ctx FFst); [apply IH1|rewrite E1; discriminate].
    + rewrite <- E1. apply (step_ok_in_ctx FFst); [apply IH1|rewrite E1; discriminate].
  - (* Snd *)
    destruct (step1 e1 s) as [v1| | | | | |] eqn:E1; try exact I.
    + apply step1_val in E1 as ->. destruct v1 as [|  |a b|]; try exact I.
      cbn [step_ok]. intros w s1 Hv. apply evals_of_val in Hv as [-> ->].
      exists 2. rewrite eval_S_unfold. unfold eval_step at 1. rewrite eval_val_S. reflexivity.
    + rewrite <- E1. apply (step_ok_in_ctx FSnd); [apply IH1|rewrite E1; discriminate].
    + rewrite <- E1. apply (step_ok_in_ctx FSnd); [apply IH1|rewrite E1; discriminate].
    + rewrite <- E1. apply (step_ok_in_ctx FSnd); [apply IH1|rewrite E1; discriminate].
  - (* Fork: the child runs first, to completion *)
    cbn [step_ok]. intros w sc [n Hc] w' s1 Hv. apply evals_of_val in Hv as [-> ->].
    exists (S n). rewrite eval_S_unfold. unfold eval_step at 1. rewrite Hc. reflexivity.
Qed.

(* the theorem: a run of the machine is an evaluation *)
Theorem mrun_sound : forall k e s v s', mrun k e s = Some (v, s') -> evals e s v s'.
Proof.
  induction k as [|k IH]; intros e s v s' H; [discriminate|]. cbn [mrun] in H.
  pose proof (step1_ok e s) as Hok.
  destruct (step1 e s) as [v0|e'|e' s0 pr|e' c|e' s0| |w] eqn:E; try discriminate.
  - injection H as <- <-. apply step1_val in E as ->. apply evals_val.
  - exact (Hok _ _ (IH _ _ _ _ H)).
  - exact (Hok _ _ (IH _ _ _ _ H)).
  - destruct (mrun k c s) as [[wc sc]|] eqn:Ec; [|discriminate].
    exact (Hok _ _ (IH _ _ _ _ Ec) _ _ (IH _ _ _ _ H)).
Qed.
