(* The machine of GlConc.v, run on one thread, computes nothing the sequential
   reference semantics (GlSem.eval) does not: every value and final state a
   run of step1 reaches — with forked children run to completion at the fork
   point, the schedule eval itself uses — is the result of eval.  The concurrent
   semantics used for C03 is thereby tied, for all programs, to the sequential
   one that C01/C02 use and that the upstream semantics suite validates. *)
From Coq Require Import String List ZArith Bool Lia.
From GV Require Import Lang.GlSyntax Lang.GlSem Lang.GlSemProofs Lang.GlConc Tr.MiniGo Tr.MiniGoProofs.
Import ListNotations.
Local Open Scope nat_scope.

(* run the machine on one expression; a forked child is run first, to completion.
   ap performs the application of two values (apply_step for the machine itself) *)
Fixpoint mrung (ap : val -> val -> state -> sres) (k : nat) (e : expr) (s : state) : option (val * state) :=
  match k with
  | O => None
  | S k' =>
      match step1g ap e s with
      | SVal v => Some (v, s)
      | SPure e' => mrung ap k' e' s
      | SMem e' s' _ => mrung ap k' e' s'
      | SFork e' c => match mrung ap k' c s with Some (_, s1) => mrung ap k' e' s1 | None => None end
      | SYield _ _ | SBlocked | SStuck _ => None
      end
  end.

Definition mrun : nat -> expr -> state -> option (val * state) := mrung apply_step.

(* (e, s) evaluates to whatever (e', s') evaluates to *)
Definition sim2 (e : expr) (s : state) (e' : expr) (s' : state) : Prop :=
  forall w s1, evals e' s' w s1 -> evals e s w s1.

(* ---------------------------------------------------------------- evaluation contexts *)
Inductive frame :=
| FAppR (e1 : expr) | FAppL (v2 : val)
| FUnOp (op : un_op)
| FBinR (op : bin_op) (e1 : expr) | FBinL (op : bin_op) (v2 : val)
| FIf (e1 e2 : expr)
| FPairR (e1 : expr) | FPairL (v2 : val)
| FFst | FSnd.

Definition fill (f : frame) (e : expr) : expr :=
  match f with
  | FAppR e1 => App e1 e
  | FAppL v2 => App e (Val v2)
  | FUnOp op => UnOp op e
  | FBinR op e1 => BinOp op e1 e
  | FBinL op v2 => BinOp op e (Val v2)
  | FIf e1 e2 => If e e1 e2
  | FPairR e1 => Pair e1 e
  | FPairL v2 => Pair e (Val v2)
  | FFst => Fst e
  | FSnd => Snd e
  end.

Lemma eval_val_S n v s : eval (S n) (Val v) s = RVal v s.
Proof. reflexivity. Qed.

(* an evaluation of a filled frame first evaluates the hole *)
Lemma fill_decompose f e s w s1 :
  evals (fill f e) s w s1 -> exists v sa, evals e s v sa /\ evals (fill f (Val v)) sa w s1.
Proof.
  intros [n H]. destruct n as [|n]; [discriminate|]. rewrite eval_S_unfold in H.
  destruct f; cbn [fill] in *; unfold eval_step at 1 in H.
  - (* App e1 [] *)
    destruct (eval n e s) as [v sa| |] eqn:E; try discriminate.
    exists v, sa. split; [exists n; exact E|]. destruct n as [|n]; [discriminate|].
    exists (S (S n)). rewrite eval_S_unfold. unfold eval_step at 1. rewrite eval_val_S. exact H.
  - (* App [] v2 *)
    destruct n as [|n]; [discriminate|]. rewrite eval_val_S in H.
    destruct (eval (S n) e s) as [v sa| |] eqn:E; try discriminate.
    exists v, sa. split; [exists (S n); exact E|].
    exists (S (S n)). rewrite eval_S_unfold. unfold eval_step at 1. rewrite !eval_val_S. exact H.
  - destruct (eval n e s) as [v sa| |] eqn:E; try discriminate.
    exists v, sa. split; [exists n; exact E|]. destruct n as [|n]; [discriminate|].
    exists (S (S n)). rewrite eval_S_unfold. unfold eval_step at 1. rewrite eval_val_S. exact H.
  - destruct (eval n e s) as [v sa| |] eqn:E; try discriminate.
    exists v, sa. split; [exists n; exact E|]. destruct n as [|n]; [discriminate|].
    exists (S (S n)). rewrite eval_S_unfold. unfold eval_step at 1. rewrite eval_val_S. exact H.
  - destruct n as [|n]; [discriminate|]. rewrite eval_val_S in H.
    destruct (eval (S n) e s) as [v sa| |] eqn:E; try discriminate.
    exists v, sa. split; [exists (S n); exact E|].
    exists (S (S n)). rewrite eval_S_unfold. unfold eval_step at 1. rewrite !eval_val_S. exact H.
  - destruct (eval n e s) as [v sa| |] eqn:E; try discriminate.
    exists v, sa. split; [exists n; exact E|]. destruct n as [|n]; [discriminate|].
    exists (S (S n)). rewrite eval_S_unfold. unfold eval_step at 1. rewrite eval_val_S. exact H.
  - destruct (eval n e s) as [v sa| |] eqn:E; try discriminate.
    exists v, sa. split; [exists n; exact E|]. destruct n as [|n]; [discriminate|].
    exists (S (S n)). rewrite eval_S_unfold. unfold eval_step at 1. rewrite eval_val_S. exact H.
  - destruct n as [|n]; [discriminate|]. rewrite eval_val_S in H.
    destruct (eval (S n) e s) as [v sa| |] eqn:E; try discriminate.
    exists v, sa. split; [exists (S n); exact E|].
    exists (S (S n)). rewrite eval_S_unfold. unfold eval_step at 1. rewrite !eval_val_S. exact H.
  - destruct (eval n e s) as [v sa| |] eqn:E; try discriminate.
    exists v, sa. split; [exists n; exact E|]. destruct n as [|n]; [discriminate|].
    exists (S (S n)). rewrite eval_S_unfold. unfold eval_step at 1. rewrite eval_val_S. exact H.
  - destruct (eval n e s) as [v sa| |] eqn:E; try discriminate.
    exists v, sa. split; [exists n; exact E|]. destruct n as [|n]; [discriminate|].
    exists (S (S n)). rewrite eval_S_unfold. unfold eval_step at 1. rewrite eval_val_S. exact H.
Qed.

(* ... and conversely *)
Lemma fill_compose f e s v sa w s1 :
  evals e s v sa -> evals (fill f (Val v)) sa w s1 -> evals (fill f e) s w s1.
Proof.
  intros [m Hm] [n Hn].
  set (K := S (m + n)).
  pose proof (evals_fuel _ _ _ _ _ K Hm ltac:(unfold K; lia)) as Hm'.
  pose proof (evals_fuel _ _ _ _ _ (S K) Hn ltac:(unfold K; lia)) as Hn'.
  exists (S K). rewrite eval_S_unfold in Hn' |- *.
  destruct f; cbn [fill] in *; unfold eval_step at 1 in Hn'; unfold eval_step at 1; unfold K in Hn' at 1; try rewrite eval_val_S in Hn'.
  - fold K in Hn'. rewrite Hm'. exact Hn'.
  - unfold K at 1. rewrite eval_val_S. fold K. unfold K in Hn' at 1. rewrite eval_val_S in Hn'. fold K in Hn'. rewrite Hm'. exact Hn'.
  - fold K in Hn'. rewrite Hm'. exact Hn'.
  - fold K in Hn'. rewrite Hm'. exact Hn'.
  - unfold K at 1. rewrite eval_val_S. fold K. unfold K in Hn' at 1. rewrite eval_val_S in Hn'. fold K in Hn'. rewrite Hm'. exact Hn'.
  - fold K in Hn'. rewrite Hm'. exact Hn'.
  - fold K in Hn'. rewrite Hm'. exact Hn'.
  - unfold K at 1. rewrite eval_val_S. fold K. unfold K in Hn' at 1. rewrite eval_val_S in Hn'. fold K in Hn'. rewrite Hm'. exact Hn'.
  - fold K in Hn'. rewrite Hm'. exact Hn'.
  - fold K in Hn'. rewrite Hm'. exact Hn'.
Qed.

Lemma sim2_fill f e s e' s' : sim2 e s e' s' -> sim2 (fill f e) s (fill f e') s'.
Proof.
  intros H w s1 Hev. destruct (fill_decompose _ _ _ _ _ Hev) as (v & sa & He & Hf).
  exact (fill_compose f e s v sa w s1 (H _ _ He) Hf).
Qed.

(* ---------------------------------------------------------------- single steps *)
Lemma in_ctx_not_val k r v : in_ctx k r <> SVal v.
Proof. destruct r; discriminate. Qed.

Lemma apply_step_not_val vf va s v : apply_step vf va s <> SVal v.
Proof.
  unfold apply_step. destruct vf as [l|fb xb body|v1 v2|p args]; try discriminate.
  destruct (Nat.ltb _ _); [discriminate|]. destruct (is_loop p); [destruct (expand_loop _ _ _); discriminate|].
  destruct p; try (destruct (exec_prim _ _ _); discriminate);
    destruct (args ++ [va])%list as [|c [|c2 [|c3 rest]]];
    try (destruct (exec_prim _ _ _); discriminate);
    destruct (cond_lock _ _); try discriminate; destruct (exec_prim _ _ _); discriminate.
Qed.

Definition step_ok (e : expr) (s : state) (r : sres) : Prop :=
  match r with
  | SPure e' => sim2 e s e' s
  | SMem e' s' _ => sim2 e s e' s'
  | SFork e' c => forall w sc, evals c s w sc -> sim2 e s e' sc
  | SVal _ | SYield _ _ | SBlocked | SStuck _ => True
  end.

Lemma evals_of_val v s w s1 : evals (Val v) s w s1 -> w = v /\ s1 = s.
Proof. intros [n H]. destruct n; [discriminate|]. cbn in H. injection H as <- <-. auto. Qed.

Lemma apply_step_ok vf va s : step_ok (App (Val vf) (Val va)) s (apply_step vf va s).
Proof.
  unfold apply_step. destruct vf as [l|fb xb body|v1 v2|p args]; try exact I.
  - (* a closure *)
    cbn [step_ok]. intros w s1 [n H]. exists (S (S n)). rewrite eval_S_unfold. unfold eval_step at 1.
    rewrite !eval_val_S. apply (evals_fuel _ _ _ _ _ (S n) H). lia.
  - cbv zeta. set (args' := (args ++ [va])%list).
    destruct (Nat.ltb (length args') (arity p)) eqn:El.
    + (* partial application *)
      cbn [step_ok]. intros w s1 Hv. apply evals_of_val in Hv as [-> ->].
      exists 2. rewrite eval_S_unfold. unfold eval_step at 1. rewrite !eval_val_S. fold args'. rewrite El. reflexivity.
    + destruct (is_loop p) eqn:Eloop.
      * destruct (expand_loop p args' s) as [e'|] eqn:Ex; [|exact I].
        cbn [step_ok]. intros w s1 [n H]. exists (S (S n)). rewrite eval_S_unfold. unfold eval_step at 1.
        rewrite !eval_val_S. fold args'. rewrite El, Eloop, Ex. apply (evals_fuel _ _ _ _ _ (S n) H). lia.
      * assert (Hgen : step_ok (App (Val (PrimV p args)) (Val va)) s
                         (match exec_prim p args' s with
                          | RVal v s' => SMem (Val v) s' (is_progress p)
                          | RStuck w => SStuck w
                          | RFuel => SBlocked
                          end)).
        { destruct (exec_prim p args' s) as [v s'| |] eqn:Ee; try exact I.
          cbn [step_ok]. intros w s1 Hv. apply evals_of_val in Hv as [-> ->].
          exists 2. rewrite eval_S_unfold. unfold eval_step at 1. rewrite !eval_val_S. fold args'. rewrite El, Eloop. exact Ee. }
        destruct p; try exact Hgen;
          destruct args' as [|c [|c2 [|c3 rest]]]; try exact Hgen;
          (destruct (cond_lock c s); [|exact I]); destruct (exec_prim PLockRelease _ s); exact I.
Qed.

(* ---------------------------------------------------------------- any machine whose applications are sound *)
Section Generic.
Variable ap : val -> val -> state -> sres.
Hypothesis Hnv : forall vf va s v, ap vf va s <> SVal v.
Hypothesis Hok : forall vf va s, step_ok (App (Val vf) (Val va)) s (ap vf va s).

Lemma step1g_val e s v : step1g ap e s = SVal v -> e = Val v.
Proof.
  destruct e; cbn [step1g]; intros H; try discriminate.
  - congruence.
  - destruct (step1g ap e2 s); try (exfalso; exact (in_ctx_not_val _ _ _ H)).
    destruct (step1g ap e1 s); try (exfalso; exact (in_ctx_not_val _ _ _ H)).
    exfalso; exact (Hnv _ _ _ _ H).
  - destruct (step1g ap e s); try (exfalso; exact (in_ctx_not_val _ _ _ H)). destruct (un_op_eval _ _); discriminate.
  - destruct (step1g ap e2 s); try (exfalso; exact (in_ctx_not_val _ _ _ H)).
    destruct (step1g ap e1 s); try (exfalso; exact (in_ctx_not_val _ _ _ H)). destruct (bin_op_eval _ _ _); discriminate.
  - destruct (step1g ap e1 s) as [[[| | |[|]| | | |]| | |]| | | | | |]; try discriminate; try (exfalso; exact (in_ctx_not_val _ _ _ H)).
  - destruct (step1g ap e2 s); try (exfalso; exact (in_ctx_not_val _ _ _ H)).
    destruct (step1g ap e1 s); try (exfalso; exact (in_ctx_not_val _ _ _ H)). discriminate.
  - destruct (step1g ap e s) as [[| | |]| | | | | |]; try discriminate; try (exfalso; exact (in_ctx_not_val _ _ _ H)).
  - destruct (step1g ap e s) as [[| | |]| | | | | |]; try discriminate; try (exfalso; exact (in_ctx_not_val _ _ _ H)).
Qed.

Lemma step_ok_in_ctx f e s r :
  step_ok e s r -> (forall v, r <> SVal v) -> step_ok (fill f e) s (in_ctx (fill f) r).
Proof.
  destruct r as [v|e'|e' s' pr|e' c|e' s'| |w]; cbn [step_ok in_ctx]; intros H Hv; try exact I.
  - apply sim2_fill, H.
  - apply sim2_fill, H.
  - intros w sc Hc. apply sim2_fill, (H w sc Hc).
Qed.

Lemma sim2_pure_head e s e' : (forall n w s1, eval n e' s = RVal w s1 -> evals e s w s1) -> sim2 e s e' s.
Proof. intros H w s1 [n Hn]. exact (H n w s1 Hn). Qed.

Lemma step1g_ok : forall e s, step_ok e s (step1g ap e s).
Proof.
  induction e as [v|x|fb xb b|e1 IH1 e2 IH2|op e1 IH1|op e1 IH1 e2 IH2|e0 IH0 e1 IH1 e2 IH2|e1 IH1 e2 IH2|e1 IH1|e1 IH1|e1 IH1];
    intros s; cbn [step1g]; try exact I.
  - (* Rec *)
    cbn [step_ok]. intros w s1 Hv. apply evals_of_val in Hv as [-> ->]. exists 1. reflexivity.
  - (* App *)
    destruct (step1g ap e2 s) as [v2| | | | | |] eqn:E2.
    + apply step1g_val in E2 as ->.
      destruct (step1g ap e1 s) as [v1| | | | | |] eqn:E1.
      * apply step1g_val in E1 as ->. apply Hok.
      * rewrite <- E1. apply (step_ok_in_ctx (FAppL v2)); [apply IH1|rewrite E1; discriminate].
      * rewrite <- E1. apply (step_ok_in_ctx (FAppL v2)); [apply IH1|rewrite E1; discriminate].
      * rewrite <- E1. apply (step_ok_in_ctx (FAppL v2)); [apply IH1|rewrite E1; discriminate].
      * exact I.
      * exact I.
      * exact I.
    + rewrite <- E2. apply (step_ok_in_ctx (FAppR e1)); [apply IH2|rewrite E2; discriminate].
    + rewrite <- E2. apply (step_ok_in_ctx (FAppR e1)); [apply IH2|rewrite E2; discriminate].
    + rewrite <- E2. apply (step_ok_in_ctx (FAppR e1)); [apply IH2|rewrite E2; discriminate].
    + exact I.
    + exact I.
    + exact I.
  - (* UnOp *)
    destruct (step1g ap e1 s) as [v1| | | | | |] eqn:E1; try exact I.
    + apply step1g_val in E1 as ->. destruct (un_op_eval op v1) as [r|] eqn:Eo; [|exact I].
      cbn [step_ok]. intros w s1 Hv. apply evals_of_val in Hv as [-> ->].
      exists 2. rewrite eval_S_unfold. unfold eval_step at 1. rewrite eval_val_S, Eo. reflexivity.
    + rewrite <- E1. apply (step_ok_in_ctx (FUnOp op)); [apply IH1|rewrite E1; discriminate].
    + rewrite <- E1. apply (step_ok_in_ctx (FUnOp op)); [apply IH1|rewrite E1; discriminate].
    + rewrite <- E1. apply (step_ok_in_ctx (FUnOp op)); [apply IH1|rewrite E1; discriminate].
  - (* BinOp *)
    destruct (step1g ap e2 s) as [v2| | | | | |] eqn:E2; try exact I.
    + apply step1g_val in E2 as ->.
      destruct (step1g ap e1 s) as [v1| | | | | |] eqn:E1; try exact I.
      * apply step1g_val in E1 as ->. destruct (bin_op_eval op v1 v2) as [r|] eqn:Eo; [|exact I].
        cbn [step_ok]. intros w s1 Hv. apply evals_of_val in Hv as [-> ->].
        exists 2. rewrite eval_S_unfold. unfold eval_step at 1. rewrite !eval_val_S, Eo. reflexivity.
      * rewrite <- E1. apply (step_ok_in_ctx (FBinL op v2)); [apply IH1|rewrite E1; discriminate].
      * rewrite <- E1. apply (step_ok_in_ctx (FBinL op v2)); [apply IH1|rewrite E1; discriminate].
      * rewrite <- E1. apply (step_ok_in_ctx (FBinL op v2)); [apply IH1|rewrite E1; discriminate].
    + rewrite <- E2. apply (step_ok_in_ctx (FBinR op e1)); [apply IH2|rewrite E2; discriminate].
    + rewrite <- E2. apply (step_ok_in_ctx (FBinR op e1)); [apply IH2|rewrite E2; discriminate].
    + rewrite <- E2. apply (step_ok_in_ctx (FBinR op e1)); [apply IH2|rewrite E2; discriminate].
  - (* If *)
    destruct (step1g ap e0 s) as [v0| | | | | |] eqn:E0; try exact I.
    + apply step1g_val in E0 as ->.
      destruct v0 as [[| | |[|]| | | |]| | |]; try exact I; cbn [step_ok]; apply sim2_pure_head; intros n w s1 H;
        exists (S (S n)); rewrite eval_S_unfold; unfold eval_step at 1; rewrite eval_val_S; apply (evals_fuel _ _ _ _ _ (S n) H); lia.
    + rewrite <- E0. apply (step_ok_in_ctx (FIf e1 e2)); [apply IH0|rewrite E0; discriminate].
    + rewrite <- E0. apply (step_ok_in_ctx (FIf e1 e2)); [apply IH0|rewrite E0; discriminate].
    + rewrite <- E0. apply (step_ok_in_ctx (FIf e1 e2)); [apply IH0|rewrite E0; discriminate].
  - (* Pair *)
    destruct (step1g ap e2 s) as [v2| | | | | |] eqn:E2; try exact I.
    + apply step1g_val in E2 as ->.
      destruct (step1g ap e1 s) as [v1| | | | | |] eqn:E1; try exact I.
      * apply step1g_val in E1 as ->.
        cbn [step_ok]. intros w s1 Hv. apply evals_of_val in Hv as [-> ->].
        exists 2. rewrite eval_S_unfold. unfold eval_step at 1. rewrite !eval_val_S. reflexivity.
      * rewrite <- E1. apply (step_ok_in_ctx (FPairL v2)); [apply IH1|rewrite E1; discriminate].
      * rewrite <- E1. apply (step_ok_in_ctx (FPairL v2)); [apply IH1|rewrite E1; discriminate].
      * rewrite <- E1. apply (step_ok_in_ctx (FPairL v2)); [apply IH1|rewrite E1; discriminate].
    + rewrite <- E2. apply (step_ok_in_ctx (FPairR e1)); [apply IH2|rewrite E2; discriminate].
    + rewrite <- E2. apply (step_ok_in_ctx (FPairR e1)); [apply IH2|rewrite E2; discriminate].
    + rewrite <- E2. apply (step_ok_in_ctx (FPairR e1)); [apply IH2|rewrite E2; discriminate].
  - (* Fst *)
    destruct (step1g ap e1 s) as [v1| | | | | |] eqn:E1; try exact I.
    + apply step1g_val in E1 as ->. destruct v1 as [|  |a b|]; try exact I.
      cbn [step_ok]. intros w s1 Hv. apply evals_of_val in Hv as [-> ->].
      exists 2. rewrite eval_S_unfold. unfold eval_step at 1. rewrite eval_val_S. reflexivity.
    + rewrite <- E1. apply (step_ok_in_ctx FFst); [apply IH1|rewrite E1; discriminate].
    + rewrite <- E1. apply (step_ok_in_ctx FFst); [apply IH1|rewrite E1; discriminate].
    + rewrite <- E1. apply (step_ok_in_ctx FFst); [apply IH1|rewrite E1; discriminate].
  - (* Snd *)
    destruct (step1g ap e1 s) as [v1| | | | | |] eqn:E1; try exact I.
    + apply step1g_val in E1 as ->. destruct v1 as [|  |a b|]; try exact I.
      cbn [step_ok]. intros w s1 Hv. apply evals_of_val in Hv as [-> ->].
      exists 2. rewrite eval_S_unfold. unfold eval_step at 1. rewrite eval_val_S. reflexivity.
    + rewrite <- E1. apply (step_ok_in_ctx FSnd); [apply IH1|rewrite E1; discriminate].
    + rewrite <- E1. apply (step_ok_in_ctx FSnd); [apply IH1|rewrite E1; discriminate].
    + rewrite <- E1. apply (step_ok_in_ctx FSnd); [apply IH1|rewrite E1; discriminate].
  - (* Fork: the child runs first, to completion *)
    cbn [step_ok]. intros w sc [n Hc] w' s1 Hv. apply evals_of_val in Hv as [-> ->].
    exists (S n). rewrite eval_S_unfold. unfold eval_step at 1. rewrite Hc. reflexivity.
Qed.

(* the theorem: a run of the machine is an evaluation *)
Theorem mrung_sound : forall k e s v s', mrung ap k e s = Some (v, s') -> evals e s v s'.
Proof.
  induction k as [|k IH]; intros e s v s' H; [discriminate|]. cbn [mrung] in H.
  pose proof (step1g_ok e s) as Hst.
  destruct (step1g ap e s) as [v0|e'|e' s0 pr|e' c|e' s0| |w] eqn:E; try discriminate.
  - injection H as <- <-. apply step1g_val in E as ->. apply evals_val.
  - exact (Hst _ _ (IH _ _ _ _ H)).
  - exact (Hst _ _ (IH _ _ _ _ H)).
  - destruct (mrung ap k c s) as [[wc sc]|] eqn:Ec; [|discriminate].
    exact (Hst _ _ (IH _ _ _ _ Ec) _ _ (IH _ _ _ _ H)).
Qed.
End Generic.

Lemma step1_val e s v : step1 e s = SVal v -> e = Val v.
Proof. exact (step1g_val apply_step apply_step_not_val e s v). Qed.

Lemma step1_ok : forall e s, step_ok e s (step1 e s).
Proof. exact (step1g_ok apply_step apply_step_not_val apply_step_ok). Qed.

Theorem mrun_sound : forall k e s v s', mrun k e s = Some (v, s') -> evals e s v s'.
Proof. exact (mrung_sound apply_step apply_step_not_val apply_step_ok). Qed.

(* ================================================================ the converse *)
(* The sequential semantics treats a wait on a condition variable as a no-op
   (GlSem.exec_prim); the machine releases the lock, lets the other threads
   move, and re-acquires it.  apply_seq is apply_step with exactly that
   difference removed: a fully applied condWait / condWaitTimeout is executed
   by exec_prim like every other library function.  Over apply_seq the machine
   and the evaluator agree in both directions. *)
Definition waits (p : prim) : bool :=
  match p with PCondWait | PCondWaitTimeout => true | _ => false end.

Definition prim_step (p : prim) (args' : list val) (s : state) : sres :=
  match exec_prim p args' s with
  | RVal v s' => SMem (Val v) s' (is_progress p)
  | RStuck w => SStuck w
  | RFuel => SBlocked
  end.

Definition apply_seq (vf va : val) (s : state) : sres :=
  match vf with
  | PrimV p args =>
      if waits p && negb (Nat.ltb (length (args ++ [va])) (arity p))
      then prim_step p (args ++ [va])%list s
      else apply_step vf va s
  | _ => apply_step vf va s
  end.

Definition step1s : expr -> state -> sres := step1g apply_seq.
Definition mrun_seq : nat -> expr -> state -> option (val * state) := mrung apply_seq.

(* where the two machines differ: nowhere but at a fully applied wait *)
Lemma apply_seq_differs vf va s :
  apply_seq vf va s <> apply_step vf va s ->
  exists p args, vf = PrimV p args /\ waits p = true /\ Nat.ltb (length (args ++ [va])) (arity p) = false.
Proof.
  unfold apply_seq. destruct vf as [l|fb xb body|v1 v2|p args]; try congruence.
  destruct (waits p) eqn:Ew; cbn [andb]; [|congruence].
  destruct (Nat.ltb _ _) eqn:El; cbn [negb]; [congruence|]. intros _. exists p, args. auto.
Qed.

Lemma waits_not_loop p : waits p = true -> is_loop p = false.
Proof. destruct p; cbn; congruence. Qed.

(* apply_step on a fully applied library function that is neither a loop nor a wait *)
Lemma apply_step_prim p args va s :
  Nat.ltb (length (args ++ [va])) (arity p) = false -> is_loop p = false -> waits p = false ->
  apply_step (PrimV p args) va s = prim_step p (args ++ [va])%list s.
Proof.
  intros El Eloop Ew. unfold apply_step. cbv zeta. rewrite El, Eloop. unfold prim_step.
  destruct p; try reflexivity; discriminate.
Qed.

Lemma prim_step_not_val p args s v : prim_step p args s <> SVal v.
Proof. unfold prim_step. destruct (exec_prim p args s); discriminate. Qed.

Lemma apply_seq_not_val vf va s v : apply_seq vf va s <> SVal v.
Proof.
  unfold apply_seq. destruct vf as [l|fb xb body|v1 v2|p args]; try apply apply_step_not_val.
  destruct (waits p && _); [apply prim_step_not_val|apply apply_step_not_val].
Qed.

Lemma apply_seq_ok vf va s : step_ok (App (Val vf) (Val va)) s (apply_seq vf va s).
Proof.
  unfold apply_seq. destruct vf as [l|fb xb body|v1 v2|p args]; try apply apply_step_ok.
  destruct (waits p) eqn:Ew; cbn [andb]; [|apply apply_step_ok].
  destruct (Nat.ltb _ _) eqn:El; cbn [negb]; [apply apply_step_ok|].
  unfold prim_step. destruct (exec_prim p (args ++ [va]) s) as [v s'| |] eqn:Ee; try exact I.
  cbn [step_ok]. intros w s1 Hv. apply evals_of_val in Hv as [-> ->].
  exists 2. rewrite eval_S_unfold. unfold eval_step at 1. rewrite !eval_val_S. rewrite El, (waits_not_loop _ Ew). exact Ee.
Qed.

Theorem mrun_seq_sound : forall k e s v s', mrun_seq k e s = Some (v, s') -> evals e s v s'.
Proof. exact (mrung_sound apply_seq apply_seq_not_val apply_seq_ok). Qed.

(* ---------------------------------------------------------------- runs inside evaluation contexts *)
Section Runs.
Variable ap : val -> val -> state -> sres.
Hypothesis Hnv : forall vf va s v, ap vf va s <> SVal v.

Lemma mrung_mono : forall k k' e s r, mrung ap k e s = Some r -> k <= k' -> mrung ap k' e s = Some r.
Proof.
  induction k as [|k IH]; intros k' e s r H Hle; [discriminate|].
  destruct k' as [|k']; [lia|]. cbn [mrung] in *.
  destruct (step1g ap e s) as [v0|e'|e' s0 pr|e' c|e' s0| |w]; try discriminate; try exact H.
  - apply (IH k'); [exact H|lia].
  - apply (IH k'); [exact H|lia].
  - destruct (mrung ap k c s) as [[wc sc]|] eqn:Ec; [|discriminate].
    rewrite (IH k' _ _ _ Ec) by lia. apply (IH k'); [exact H|lia].
Qed.

Lemma step1g_fill f e s :
  (forall v, step1g ap e s <> SVal v) -> step1g ap (fill f e) s = in_ctx (fill f) (step1g ap e s).
Proof.
  intros Hv. destruct f; cbn [fill step1g]; destruct (step1g ap e s) as [v0| | | | | |]; try reflexivity;
    exfalso; exact (Hv v0 eq_refl).
Qed.

Lemma mrung_fill f : forall k e s v sa j r,
  mrung ap k e s = Some (v, sa) -> mrung ap j (fill f (Val v)) sa = Some r ->
  mrung ap (k + j) (fill f e) s = Some r.
Proof.
  induction k as [|k IH]; intros e s v sa j r H Hj; [discriminate|].
  cbn [mrung] in H.
  destruct (step1g ap e s) as [v0|e'|e' s0 pr|e' c|e' s0| |w] eqn:E; try discriminate.
  - injection H as <- <-. apply (step1g_val ap Hnv) in E as ->. apply (mrung_mono j); [exact Hj|lia].
  - change (S k + j) with (S (k + j)). cbn [mrung]. rewrite step1g_fill by (rewrite E; discriminate). rewrite E. cbn [in_ctx].
    exact (IH _ _ _ _ _ _ H Hj).
  - change (S k + j) with (S (k + j)). cbn [mrung]. rewrite step1g_fill by (rewrite E; discriminate). rewrite E. cbn [in_ctx].
    exact (IH _ _ _ _ _ _ H Hj).
  - change (S k + j) with (S (k + j)). cbn [mrung]. rewrite step1g_fill by (rewrite E; discriminate). rewrite E. cbn [in_ctx].
    destruct (mrung ap k c s) as [[wc sc]|] eqn:Ec; [|discriminate].
    rewrite (mrung_mono k (k + j) _ _ _ Ec) by lia. exact (IH _ _ _ _ _ _ H Hj).
Qed.
End Runs.

Lemma loop_not_waits p : is_loop p = true -> waits p = false.
Proof. destruct p; cbn; congruence. Qed.

Lemma mrun_seq_val k v s : mrun_seq (S k) (Val v) s = Some (v, s).
Proof. reflexivity. Qed.

Definition mfill := mrung_fill apply_seq apply_seq_not_val.

(* every evaluation is a run of the (sequential-wait) machine *)
Theorem eval_is_mrun_seq : forall n e s v s',
  eval n e s = RVal v s' -> exists k, mrun_seq k e s = Some (v, s').
Proof.
  induction n as [|n IH]; intros e s v s' H; [discriminate|].
  rewrite eval_S_unfold in H.
  destruct e as [v0|x|fb xb b|e1 e2|op e1|op e1 e2|e0 e1 e2|e1 e2|e1|e1|e1]; unfold eval_step in H.
  - injection H as <- <-. exists 1. reflexivity.
  - discriminate.
  - injection H as <- <-. exists 2. reflexivity.
  - (* App *)
    destruct (eval n e2 s) as [v2 s1| |] eqn:E2; try discriminate.
    destruct (eval n e1 s1) as [v1 s2| |] eqn:E1; try discriminate.
    destruct (IH _ _ _ _ E2) as [k2 K2]. destruct (IH _ _ _ _ E1) as [k1 K1].
    assert (Hhead : exists k3, mrun_seq k3 (App (Val v1) (Val v2)) s2 = Some (v, s')).
    { destruct v1 as [l|gb yb body|a b|p args]; try discriminate.
      - destruct (IH _ _ _ _ H) as [k K]. exists (S k). unfold mrun_seq. cbn [mrung step1g apply_seq apply_step]. exact K.
      - set (args' := (args ++ [v2])%list) in *.
        destruct (Nat.ltb (length args') (arity p)) eqn:El.
        + injection H as <- <-. exists 2. unfold mrun_seq. cbn [mrung step1g apply_seq]. fold args'. rewrite El. cbn [negb].
          rewrite Bool.andb_false_r. unfold apply_step. cbv zeta. fold args'. rewrite El. reflexivity.
        + destruct (is_loop p) eqn:Eloop.
          * destruct (expand_loop p args' s2) as [e'|] eqn:Ex; [|discriminate].
            destruct (IH _ _ _ _ H) as [k K]. exists (S k). unfold mrun_seq. cbn [mrung step1g apply_seq].
            rewrite (loop_not_waits _ Eloop). cbn [andb]. unfold apply_step. cbv zeta. fold args'. rewrite El, Eloop, Ex. exact K.
          * exists 2. unfold mrun_seq. cbn [mrung step1g apply_seq]. fold args'. rewrite El. cbn [negb].
            destruct (waits p) eqn:Ew; cbn [andb].
            -- unfold prim_step. rewrite H. reflexivity.
            -- rewrite (apply_step_prim p args v2 s2 El Eloop Ew). unfold prim_step. fold args'. rewrite H. reflexivity. }
    destruct Hhead as [k3 K3].
    exists (k2 + (k1 + k3)).
    change (App e1 e2) with (fill (FAppR e1) e2). apply (mfill (FAppR e1) k2 e2 s v2 s1 (k1 + k3) (v, s') K2). cbn [fill].
    change (App e1 (Val v2)) with (fill (FAppL v2) e1). apply (mfill (FAppL v2) k1 e1 s1 v1 s2 k3 (v, s') K1). exact K3.
  - (* UnOp *)
    destruct (eval n e1 s) as [v1 s1| |] eqn:E1; try discriminate. destruct (IH _ _ _ _ E1) as [k1 K1].
    destruct (un_op_eval op v1) as [r|] eqn:Eo; [|discriminate]. injection H as <- <-.
    exists (k1 + 2). change (UnOp op e1) with (fill (FUnOp op) e1). apply (mfill (FUnOp op) k1 e1 s v1 s1 2 _ K1).
    unfold mrun_seq. cbn [fill mrung step1g]. rewrite Eo. reflexivity.
  - (* BinOp *)
    destruct (eval n e2 s) as [v2 s1| |] eqn:E2; try discriminate.
    destruct (eval n e1 s1) as [v1 s2| |] eqn:E1; try discriminate.
    destruct (IH _ _ _ _ E2) as [k2 K2]. destruct (IH _ _ _ _ E1) as [k1 K1].
    destruct (bin_op_eval op v1 v2) as [r|] eqn:Eo; [|discriminate]. injection H as <- <-.
    exists (k2 + (k1 + 2)).
    change (BinOp op e1 e2) with (fill (FBinR op e1) e2). apply (mfill (FBinR op e1) k2 e2 s v2 s1 (k1 + 2) _ K2). cbn [fill].
    change (BinOp op e1 (Val v2)) with (fill (FBinL op v2) e1). apply (mfill (FBinL op v2) k1 e1 s1 v1 s2 2 _ K1).
    unfold mrun_seq. cbn [fill mrung step1g]. rewrite Eo. reflexivity.
  - (* If *)
    destruct (eval n e0 s) as [v0 s1| |] eqn:E0; try discriminate. destruct (IH _ _ _ _ E0) as [k0 K0].
    destruct v0 as [[| | |[|]| | | |]| | |]; try discriminate; destruct (IH _ _ _ _ H) as [k K];
      exists (k0 + S k); change (If e0 e1 e2) with (fill (FIf e1 e2) e0);
      apply (mfill (FIf e1 e2) k0 e0 s _ s1 (S k) _ K0); unfold mrun_seq; cbn [fill mrung step1g]; exact K.
  - (* Pair *)
    destruct (eval n e2 s) as [v2 s1| |] eqn:E2; try discriminate.
    destruct (eval n e1 s1) as [v1 s2| |] eqn:E1; try discriminate.
    destruct (IH _ _ _ _ E2) as [k2 K2]. destruct (IH _ _ _ _ E1) as [k1 K1]. injection H as <- <-.
    exists (k2 + (k1 + 2)).
    change (Pair e1 e2) with (fill (FPairR e1) e2). apply (mfill (FPairR e1) k2 e2 s v2 s1 (k1 + 2) _ K2). cbn [fill].
    change (Pair e1 (Val v2)) with (fill (FPairL v2) e1). apply (mfill (FPairL v2) k1 e1 s1 v1 s2 2 _ K1).
    reflexivity.
  - (* Fst *)
    destruct (eval n e1 s) as [v1 s1| |] eqn:E1; try discriminate. destruct (IH _ _ _ _ E1) as [k1 K1].
    destruct v1 as [| |a b|]; try discriminate. injection H as <- <-.
    exists (k1 + 2). change (Fst e1) with (fill FFst e1). apply (mfill FFst k1 e1 s _ s1 2 _ K1). reflexivity.
  - (* Snd *)
    destruct (eval n e1 s) as [v1 s1| |] eqn:E1; try discriminate. destruct (IH _ _ _ _ E1) as [k1 K1].
    destruct v1 as [| |a b|]; try discriminate. injection H as <- <-.
    exists (k1 + 2). change (Snd e1) with (fill FSnd e1). apply (mfill FSnd k1 e1 s _ s1 2 _ K1). reflexivity.
  - (* Fork *)
    destruct (eval n e1 s) as [w s1| |] eqn:E1; try discriminate. injection H as <- <-.
    destruct (IH _ _ _ _ E1) as [k1 K1]. destruct k1 as [|k1]; [discriminate|].
    exists (S (S k1)). unfold mrun_seq in *.
    change (mrung apply_seq (S (S k1)) (Fork e1) s)
      with (match mrung apply_seq (S k1) e1 s with Some (_, sc) => mrung apply_seq (S k1) (Val (LitV LitUnit)) sc | None => None end).
    rewrite K1. reflexivity.
Qed.

(* the two reference semantics agree on one thread *)
Theorem seq_machine_iff_eval e s v s' :
  (exists k, mrun_seq k e s = Some (v, s')) <-> (exists n, eval n e s = RVal v s').
Proof.
  split.
  - intros [k H]. exact (mrun_seq_sound k e s v s' H).
  - intros [n H]. exact (eval_is_mrun_seq n e s v s' H).
Qed.
