(* Lookup in the regenerated association tables. *)
From Coq Require Import String List Bool.
Import ListNotations.
Open Scope string_scope.

Fixpoint lookup {A} (k : string) (l : list (string * A)) : option A :=
  match l with
  | [] => None
  | (k', v) :: t => if String.eqb k k' then Some v else lookup k t
  end.

Definition has_body (tbl : list (string * (string * string))) (k sig body : string) : bool :=
  match lookup k tbl with
  | Some (s, b) => String.eqb s sig && String.eqb b body
  | None => false
  end.

Definition mem_string (s : string) (l : list string) : bool := existsb (String.eqb s) l.

Fixpoint list_eqb (a b : list string) : bool :=
  match a, b with
  | [], [] => true
  | x :: a', y :: b' => String.eqb x y && list_eqb a' b'
  | _, _ => false
  end.

Fixpoint pairs_eqb (a b : list (string * string)) : bool :=
  match a, b with
  | [], [] => true
  | (x1, x2) :: a', (y1, y2) :: b' => String.eqb x1 y1 && String.eqb x2 y2 && pairs_eqb a' b'
  | _, _ => false
  end.
