(* Statement skeletons: what srcextract produces for every function of the
   support libraries (GenSkeletons.v).  Structure-preserving: one node per Go
   statement, expressions kept as normalised source text. *)
From Coq Require Import String List Bool Ascii.
Import ListNotations.
Open Scope string_scope.

Inductive sk :=
| SCall (assigned : list string) (callee : string) (args : list string)
    (* a call statement, or  x, y := f(args)  /  x = f(args) *)
| SDefer (callee : string) (args : list string)
| SGo (callee : string) (args : list string)
| SIf (cond : string) (thn els : list sk)
| SFor (cond : string) (body : list sk)         (* for cond { } ; "" for an infinite loop *)
| SRange (over : string) (body : list sk)
| SReturn (vals : list string)
| SAssign (lhs rhs : list string)               (* assignments / definitions whose rhs is not one call *)
| SBreak
| SOther (text : string).                       (* anything else: predicates fail closed on it *)

(* substring test *)
Fixpoint prefix (p s : string) : bool :=
  match p, s with
  | EmptyString, _ => true
  | String a p', String b s' => Ascii.eqb a b && prefix p' s'
  | _, _ => false
  end.

Fixpoint contains (p s : string) : bool :=
  prefix p s || match s with EmptyString => false | String _ s' => contains p s' end.

Definition any_contains (p : string) (l : list string) : bool := existsb (contains p) l.

Fixpoint lookup_sk (k : string) (l : list (string * list sk)) : option (list sk) :=
  match l with
  | [] => None
  | (k', v) :: t => if String.eqb k k' then Some v else lookup_sk k t
  end.

(* every expression text appearing in a statement (not descending into blocks) *)
Definition texts_of (s : sk) : list string :=
  match s with
  | SCall asg c args => asg ++ c :: args
  | SDefer c args | SGo c args => c :: args
  | SIf c _ _ => [c]
  | SFor c _ => [c]
  | SRange o _ => [o]
  | SReturn vs => vs
  | SAssign l r => l ++ r
  | SBreak => []
  | SOther t => [t]
  end.
