From Coq Require Import List ZArith Lia Bool.
From GV Require Import Enc.Enc.
Import ListNotations.
Open Scope Z_scope.

Lemma upd_length b i x : length (upd b i x) = length b.
Proof. revert i; induction b as [|h t IH]; intros [|i]; simpl; auto. Qed.

Lemma upd_app_r pre b i x :
  upd (pre ++ b) (length pre + i) x = pre ++ upd b i x.
Proof. induction pre as [|p pre IH]; simpl; [reflexivity|]. now rewrite IH. Qed.

Lemma upd_head h t x : upd (h :: t) 0 x = x :: t.
Proof. reflexivity. Qed.

Lemma byte_at_shift v i : 0 <= v ->
  byte_at v (S i) = byte_at (v / 256) i.
Proof.
  intros Hv. unfold byte_at.
  replace (8 * Z.of_nat (S i)) with (8 + 8 * Z.of_nat i) by lia.
  rewrite Z.pow_add_r by lia. change (2 ^ 8) with 256.
  rewrite Z.div_div by lia. reflexivity.
Qed.

Lemma byte_at_0 v : byte_at v 0 = v mod 256.
Proof. unfold byte_at. simpl. now rewrite Z.div_1_r. Qed.

(* A formulation that is stable under the induction: the result of the
   remaining stores only depends on the bytes byte_at v i. *)
Lemma upd_app_here pre h t x : upd (pre ++ h :: t) (length pre) x = pre ++ x :: t.
Proof. induction pre as [|p pre IH]; simpl; [reflexivity|]. now rewrite IH. Qed.

Lemma stores_spec_gen w : forall pre b v, (w <= length b)%nat ->
  stores w (length pre) v (pre ++ b) =
  pre ++ map (fun i => byte_at v (length pre + i)) (seq 0 w) ++ skipn w b.
Proof.
  induction w as [|w IH]; intros pre b v Hlen.
  - reflexivity.
  - destruct b as [|h t]; [simpl in Hlen; lia|].
    cbn [stores]. rewrite upd_app_here.
    set (x := byte_at v (length pre)).
    assert (E : pre ++ x :: t = (pre ++ [x]) ++ t) by (rewrite <- app_assoc; reflexivity).
    assert (L : S (length pre) = length (pre ++ [x])) by (rewrite app_length; simpl; lia).
    rewrite E, L, IH by (simpl in Hlen; lia).
    rewrite <- app_assoc. cbn [seq map skipn app].
    f_equal. rewrite Nat.add_0_r. fold x. f_equal. f_equal.
    rewrite <- seq_shift, map_map.
    apply map_ext; intros i. rewrite app_length; simpl. f_equal; lia.
Qed.

Lemma le_bytes_byte_at w : forall v, 0 <= v ->
  le_bytes w v = map (fun i => byte_at v i) (seq 0 w).
Proof.
  induction w as [|w IH]; intros v Hv; [reflexivity|].
  cbn [le_bytes seq map]. rewrite byte_at_0. f_equal.
  rewrite <- seq_shift, map_map.
  rewrite IH by (apply Z.div_pos; lia).
  apply map_ext; intros i. symmetry; apply byte_at_shift; exact Hv.
Qed.

Lemma put_le_frame w b v : 0 <= v -> (w <= length b)%nat ->
  put_le w b v = Some (le_bytes w v ++ skipn w b).
Proof.
  intros Hv Hlen. unfold put_le.
  destruct (Nat.ltb_spec (length b) w) as [Hlt|_]; [lia|].
  f_equal. rewrite le_bytes_byte_at by exact Hv.
  exact (stores_spec_gen w [] b v Hlen).
Qed.

Lemma put_le_short w b v : (length b < w)%nat -> put_le w b v = None.
Proof. intros H. unfold put_le. destruct (Nat.ltb_spec (length b) w); [reflexivity|lia]. Qed.

Lemma get_le_short w b : (length b < w)%nat -> get_le w b = None.
Proof. intros H. unfold get_le. destruct (Nat.ltb_spec (length b) w); [reflexivity|lia]. Qed.

Lemma put_le_refuses_iff w b v : put_le w b v = None <-> (length b < w)%nat.
Proof. unfold put_le. destruct (Nat.ltb_spec (length b) w); split; intros; try lia; try reflexivity; discriminate. Qed.

Lemma le_bytes_length w v : length (le_bytes w v) = w.
Proof. revert v; induction w as [|w IH]; intros v; simpl; auto. Qed.

Lemma le_bytes_nth w : forall v i, 0 <= v -> (i < w)%nat ->
  nth i (le_bytes w v) 0 = (v / 2 ^ (8 * Z.of_nat i)) mod 256.
Proof.
  intros v i Hv Hi. rewrite le_bytes_byte_at by exact Hv.
  rewrite (nth_indep _ 0 (byte_at v O)) by (rewrite map_length, seq_length; exact Hi).
  rewrite (map_nth (fun i => byte_at v i)), seq_nth by exact Hi. reflexivity.
Qed.

Lemma le_bytes_wf w : forall v, wf_bytes (le_bytes w v) = true.
Proof.
  induction w as [|w IH]; intros v; [reflexivity|].
  cbn [le_bytes wf_bytes forallb]. fold (wf_bytes (le_bytes w (v / 256))).
  rewrite IH, andb_true_r. unfold is_byte.
  pose proof (Z.mod_pos_bound v 256 ltac:(lia)).
  apply andb_true_intro; split; [apply Z.leb_le|apply Z.ltb_lt]; lia.
Qed.

(* value of the little-endian digits *)
Fixpoint le_value (b : bytes) : Z :=
  match b with [] => 0 | x :: t => x + 256 * le_value t end.

Lemma le_value_le_bytes w : forall v, 0 <= v -> le_value (le_bytes w v) = v mod 2 ^ (8 * Z.of_nat w).
Proof.
  induction w as [|w IH]; intros v Hv.
  - simpl. now rewrite Z.mod_1_r.
  - cbn [le_bytes le_value]. rewrite IH by (apply Z.div_pos; lia).
    replace (8 * Z.of_nat (S w)) with (8 + 8 * Z.of_nat w) by lia.
    rewrite Z.pow_add_r by lia. change (2 ^ 8) with 256.
    rewrite Z.rem_mul_r by (try apply Z.pow_nonzero; try apply Z.pow_pos_nonneg; lia).
    reflexivity.
Qed.

Lemma loads_shift k : forall from h t,
  loads k (S from) (h :: t) = 256 * loads k from t.
Proof.
  induction k as [|k IH]; intros from h t; [reflexivity|].
  cbn [loads nth]. rewrite IH.
  replace (8 * Z.of_nat (S from)) with (8 + 8 * Z.of_nat from) by lia.
  rewrite Z.pow_add_r by lia. change (2 ^ 8) with 256. ring.
Qed.

Lemma loads_value k : forall b, (k <= length b)%nat ->
  loads k 0 b = le_value (firstn k b).
Proof.
  induction k as [|k IH]; intros b Hk; [reflexivity|].
  destruct b as [|h t]; [simpl in Hk; lia|].
  cbn [loads nth firstn le_value]. rewrite loads_shift, IH by (simpl in Hk; lia).
  simpl. ring.
Qed.

Lemma get_le_value w b : (w <= length b)%nat -> get_le w b = Some (le_value (firstn w b)).
Proof.
  intros H. unfold get_le. destruct (Nat.ltb_spec (length b) w); [lia|].
  now rewrite loads_value.
Qed.

Lemma get_le_only_prefix w b b' : (w <= length b)%nat -> (w <= length b')%nat ->
  firstn w b = firstn w b' -> get_le w b = get_le w b'.
Proof. intros H H' E. rewrite !get_le_value by assumption. now rewrite E. Qed.

Lemma get_put w b v : 0 <= v < 2 ^ (8 * Z.of_nat w) -> (w <= length b)%nat ->
  forall b', put_le w b v = Some b' -> get_le w b' = Some v.
Proof.
  intros Hv Hlen b' Hp. rewrite put_le_frame in Hp by lia. injection Hp as <-.
  rewrite get_le_value by (rewrite app_length, le_bytes_length; lia).
  rewrite firstn_app, le_bytes_length, Nat.sub_diag, firstn_O, app_nil_r.
  rewrite firstn_all2 by (rewrite le_bytes_length; lia).
  rewrite le_value_le_bytes by lia. f_equal. apply Z.mod_small; lia.
Qed.

Lemma le_value_bounds b : wf_bytes b = true -> 0 <= le_value b < 2 ^ (8 * Z.of_nat (length b)).
Proof.
  induction b as [|x t IH]; intros Hwf.
  - simpl. lia.
  - cbn [wf_bytes forallb] in Hwf. apply andb_prop in Hwf as [Hx Ht].
    specialize (IH Ht). unfold is_byte in Hx. apply andb_prop in Hx as [Hx1 Hx2].
    apply Z.leb_le in Hx1. apply Z.ltb_lt in Hx2.
    cbn [le_value length].
    replace (8 * Z.of_nat (S (length t))) with (8 + 8 * Z.of_nat (length t)) by lia.
    rewrite Z.pow_add_r by lia. change (2 ^ 8) with 256. lia.
Qed.

Lemma le_bytes_le_value b : wf_bytes b = true -> le_bytes (length b) (le_value b) = b.
Proof.
  induction b as [|x t IH]; intros Hwf; [reflexivity|].
  cbn [wf_bytes forallb] in Hwf. apply andb_prop in Hwf as [Hx Ht].
  unfold is_byte in Hx. apply andb_prop in Hx as [Hx1 Hx2].
  apply Z.leb_le in Hx1. apply Z.ltb_lt in Hx2.
  cbn [length le_bytes le_value].
  assert (E1 : (x + 256 * le_value t) mod 256 = x).
  { rewrite Z.mul_comm, Z_mod_plus_full. apply Z.mod_small; lia. }
  assert (E2 : (x + 256 * le_value t) / 256 = le_value t).
  { rewrite Z.add_comm, Z.mul_comm, Z.div_add_l by lia. rewrite Z.div_small by lia. lia. }
  rewrite E1, E2.
  now rewrite IH.
Qed.

Lemma wf_firstn n : forall b, wf_bytes b = true -> wf_bytes (firstn n b) = true.
Proof.
  induction n as [|n IH]; intros [|x t] H; try reflexivity.
  cbn [firstn wf_bytes forallb] in *. apply andb_prop in H as [Hx Ht].
  rewrite Hx. simpl. now apply IH.
Qed.

Lemma put_get w b : wf_bytes b = true -> (w <= length b)%nat ->
  forall v, get_le w b = Some v -> put_le w b v = Some b.
Proof.
  intros Hwf Hlen v Hg. rewrite get_le_value in Hg by exact Hlen. injection Hg as <-.
  pose proof (le_value_bounds (firstn w b) (wf_firstn w b Hwf)) as Hb.
  rewrite put_le_frame by (try exact Hlen; lia). f_equal.
  replace w with (length (firstn w b)) at 1 by (rewrite firstn_length; lia).
  rewrite le_bytes_le_value by (apply wf_firstn; exact Hwf).
  apply firstn_skipn.
Qed.

Lemma put_le_wf w b v b' : wf_bytes b = true -> put_le w b v = Some b' -> 0 <= v -> wf_bytes b' = true.
Proof.
  intros Hwf Hp Hv. destruct (Nat.ltb_spec (length b) w) as [Hlt|Hge].
  - rewrite put_le_short in Hp by exact Hlt. discriminate.
  - rewrite put_le_frame in Hp by assumption. injection Hp as <-.
    unfold wf_bytes. rewrite forallb_app. fold (wf_bytes (le_bytes w v)). rewrite le_bytes_wf.
    simpl. clear -Hwf. revert b Hwf. induction w as [|w IH]; intros [|x t] H; try exact H; try reflexivity.
    cbn [skipn]. apply IH. cbn [wf_bytes forallb] in H. apply andb_prop in H as [_ H]. exact H.
Qed.
