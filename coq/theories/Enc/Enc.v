(* Model of machine.UInt64Put/Get, UInt32Put/Get (machine/prims.go), which
   delegate to encoding/binary.LittleEndian:

     func (littleEndian) PutUint64(b []byte, v uint64) {
        _ = b[7]            // bounds check: panics when len(b) < 8, before any store
        b[0] = byte(v); b[1] = byte(v >> 8); ... b[7] = byte(v >> 56) }
     func (littleEndian) Uint64(b []byte) uint64 {
        _ = b[7]
        return uint64(b[0]) | uint64(b[1])<<8 | ... | uint64(b[7])<<56 }

   Bytes are Z in [0,256); a buffer is a list of bytes; [None] = the call
   panicked (refused) and, because the Go slice is only mutated by the stores,
   the caller's buffer is unchanged.  The model mirrors the stores one by one;
   the theorems (EncProofs.v) characterise them. *)
From Coq Require Import List ZArith Lia.
Import ListNotations.
Open Scope Z_scope.

Definition bytes := list Z.

Definition is_byte (x : Z) : bool := (0 <=? x) && (x <? 256).
Definition wf_bytes (b : bytes) : bool := forallb is_byte b.

(* b[i] = x  (in range by construction at every use) *)
Fixpoint upd (b : bytes) (i : nat) (x : Z) : bytes :=
  match b, i with
  | [], _ => []
  | _ :: t, O => x :: t
  | h :: t, S i' => h :: upd t i' x
  end.

(* byte(v >> (8*i)) *)
Definition byte_at (v : Z) (i : nat) : Z := (v / 2 ^ (8 * Z.of_nat i)) mod 256.

(* stores b[i] = byte(v >> 8i) for i = from, from+1, ..., from+k-1 *)
Fixpoint stores (k : nat) (from : nat) (v : Z) (b : bytes) : bytes :=
  match k with
  | O => b
  | S k' => stores k' (S from) v (upd b from (byte_at v from))
  end.

Definition put_le (w : nat) (b : bytes) (v : Z) : option bytes :=
  if Nat.ltb (length b) w then None else Some (stores w 0 v b).

(* b[from] | b[from+1] << 8 | ...   (disjoint bit ranges: | is +) *)
Fixpoint loads (k : nat) (from : nat) (b : bytes) : Z :=
  match k with
  | O => 0
  | S k' => nth from b 0 * 2 ^ (8 * Z.of_nat from) + loads k' (S from) b
  end.

Definition get_le (w : nat) (b : bytes) : option Z :=
  if Nat.ltb (length b) w then None else Some (loads w 0 b).

Definition put64 := put_le 8.
Definition get64 := get_le 8.
Definition put32 := put_le 4.
Definition get32 := get_le 4.

(* The specification's view of the encoding: the w little-endian digits. *)
Fixpoint le_bytes (w : nat) (v : Z) : bytes :=
  match w with
  | O => []
  | S w' => v mod 256 :: le_bytes w' (v / 256)
  end.
