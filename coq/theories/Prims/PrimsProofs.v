From Coq Require Import List ZArith Lia Bool Arith Permutation.
From GV Require Import Prims.Prims.
Import ListNotations.
Open Scope Z_scope.

Lemma value_app a b acc : value (a ++ b) acc = value b (value a acc).
Proof. revert acc; induction a as [|d a IH]; intros acc; [reflexivity|]. cbn [app value]. apply IH. Qed.

Lemma digits_value fuel : forall n, 0 <= n < 10 ^ (Z.of_nat fuel + 1) -> value (digits fuel n) 0 = n.
Proof.
  induction fuel as [|f IH]; intros n Hn.
  - cbn [digits value]. change (10 ^ (Z.of_nat 0 + 1)) with 10 in Hn. rewrite Z.mod_small by lia. lia.
  - cbn [digits]. destruct (Z.ltb_spec n 10) as [Hlt|Hge]; [cbn [value]; lia|].
    rewrite value_app, IH.
    + cbn [value]. pose proof (Z.div_mod n 10 ltac:(lia)). lia.
    + split; [apply Z.div_pos; lia|].
      replace (Z.of_nat (S f) + 1) with (Z.of_nat f + 1 + 1) in Hn by lia.
      rewrite (Z.pow_add_r 10 (Z.of_nat f + 1) 1) in Hn by lia. change (10 ^ 1) with 10 in Hn.
      apply Z.div_lt_upper_bound; lia.
Qed.

Lemma digits_all_digits fuel : forall n, 0 <= n < 10 ^ (Z.of_nat fuel + 1) -> forallb is_digit (digits fuel n) = true.
Proof.
  induction fuel as [|f IH]; intros n Hn.
  - cbn [digits forallb]. rewrite andb_true_r. unfold is_digit.
    pose proof (Z.mod_pos_bound n 10 ltac:(lia)). apply andb_true_intro; split; [apply Z.leb_le|apply Z.leb_le]; lia.
  - cbn [digits]. destruct (Z.ltb_spec n 10) as [Hlt|Hge].
    + cbn [forallb]. rewrite andb_true_r. unfold is_digit. apply andb_true_intro; split; apply Z.leb_le; lia.
    + rewrite forallb_app, IH.
      * cbn [forallb andb]. rewrite andb_true_r. unfold is_digit.
        pose proof (Z.mod_pos_bound n 10 ltac:(lia)). apply andb_true_intro; split; apply Z.leb_le; lia.
      * split; [apply Z.div_pos; lia|].
        replace (Z.of_nat (S f) + 1) with (Z.of_nat f + 1 + 1) in Hn by lia.
        rewrite (Z.pow_add_r 10 (Z.of_nat f + 1) 1) in Hn by lia. change (10 ^ 1) with 10 in Hn.
        apply Z.div_lt_upper_bound; lia.
Qed.

(* no leading zero: the first digit is non-zero unless the number is 0 (then the string is "0") *)
Lemma digits_head fuel : forall n, 0 <= n < 10 ^ (Z.of_nat fuel + 1) ->
  exists d t, digits fuel n = d :: t /\ (d = 0 -> n = 0 /\ t = []).
Proof.
  induction fuel as [|f IH]; intros n Hn.
  - cbn [digits]. change (10 ^ (Z.of_nat 0 + 1)) with 10 in Hn. rewrite Z.mod_small by lia. eauto.
  - cbn [digits]. destruct (Z.ltb_spec n 10) as [Hlt|Hge]; [eauto|].
    destruct (IH (n / 10)) as (d & t & E & H0).
    + split; [apply Z.div_pos; lia|].
      replace (Z.of_nat (S f) + 1) with (Z.of_nat f + 1 + 1) in Hn by lia.
      rewrite (Z.pow_add_r 10 (Z.of_nat f + 1) 1) in Hn by lia. change (10 ^ 1) with 10 in Hn.
      apply Z.div_lt_upper_bound; lia.
    + rewrite E. cbn [app]. exists d, (t ++ [n mod 10]). split; [reflexivity|].
      intros Hd. destruct (H0 Hd) as [Hz _]. exfalso.
      assert (n < 10) by (pose proof (Z.div_mod n 10 ltac:(lia)); pose proof (Z.mod_pos_bound n 10 ltac:(lia)); lia). lia.
Qed.

Theorem to_string_roundtrip n : 0 <= n < 2 ^ 64 -> of_string (to_string n) = n.
Proof. intros H. unfold of_string, to_string. apply digits_value. change (Z.of_nat 19 + 1) with 20. lia. Qed.

Theorem to_string_digits_only n : 0 <= n < 2 ^ 64 -> forallb is_digit (to_string n) = true.
Proof. intros H. apply digits_all_digits. change (Z.of_nat 19 + 1) with 20. lia. Qed.

Theorem to_string_no_leading_zero n : 0 <= n < 2 ^ 64 ->
  exists d t, to_string n = d :: t /\ (d = 0 -> n = 0 /\ t = []).
Proof. intros H. apply digits_head. change (Z.of_nat 19 + 1) with 20. lia. Qed.

Theorem to_string_injective a b : 0 <= a < 2 ^ 64 -> 0 <= b < 2 ^ 64 -> to_string a = to_string b -> a = b.
Proof. intros Ha Hb E. rewrite <- (to_string_roundtrip a Ha), <- (to_string_roundtrip b Hb). now rewrite E. Qed.

(* ---------------------------------------------------------------- MapClear *)
Section MapClear.
  Context {K V : Type} (keq : K -> K -> bool).

  Lemma mdelete_In k (m : list (K * V)) e : In e (mdelete keq k m) <-> In e m /\ keq (fst e) k = false.
  Proof. unfold mdelete. rewrite filter_In. rewrite negb_true_iff. tauto. Qed.

  Lemma clear_loop_In order : forall (m : list (K * V)) e,
    In e (clear_loop keq order m) <-> In e m /\ forall k, In k order -> keq (fst e) k = false.
  Proof.
    induction order as [|k order IH]; intros m e; cbn [clear_loop fold_left].
    - split; [intros H; split; [exact H|intros k []]|tauto].
    - fold (clear_loop keq order (mdelete keq k m)). rewrite IH, mdelete_In. split.
      + intros [[H1 H2] H3]. split; [exact H1|]. intros k' [<-|Hk]; auto.
      + intros [H1 H2]. split; [split; [exact H1|apply H2; now left]|]. intros k' Hk. apply H2. now right.
  Qed.

  (* the original loop empties every map whose keys are reflexive under ==,
     whatever the iteration order *)
  Theorem clear_loop_empties (m : list (K * V)) order :
    (forall e, In e m -> keq (fst e) (fst e) = true) ->
    (forall e, In e m -> In (fst e) order) ->
    clear_loop keq order m = [].
  Proof.
    intros Hrefl Hall. destruct (clear_loop keq order m) as [|e t] eqn:E; [reflexivity|].
    assert (Hin : In e (clear_loop keq order m)) by (rewrite E; now left).
    apply clear_loop_In in Hin as [H1 H2]. specialize (H2 (fst e) (Hall e H1)). rewrite Hrefl in H2 by exact H1. discriminate.
  Qed.

  (* an entry whose key is not equal to itself (a NaN key) survives the loop *)
  Theorem clear_loop_keeps_irreflexive (m : list (K * V)) e :
    In e m -> (forall k, keq (fst e) k = false) -> forall order, In e (clear_loop keq order m).
  Proof. intros Hin Hirr order. apply clear_loop_In. split; [exact Hin|]. intros k _. apply Hirr. Qed.

  (* the builtin clear leaves the map empty, and a cleared map is usable: it
     behaves like a new map *)
  Theorem clear_builtin_empty (m : list (K * V)) : clear_builtin m = [].
  Proof. reflexivity. Qed.
End MapClear.

(* ---------------------------------------------------------------- Assume / Assert *)
Theorem assume_panics_iff c : assume c = Panics <-> c = false.
Proof. destruct c; cbn; split; intros; congruence. Qed.
Theorem assert_panics_iff c : assert c = Panics <-> c = false.
Proof. destruct c; cbn; split; intros; congruence. Qed.
