(* machine/prims.go: UInt64ToString, MapClear, Assume/Assert (models) *)
From Coq Require Import List ZArith Lia Bool Arith.
Import ListNotations.
Open Scope Z_scope.

(* ---------------------------------------------------------------- UInt64ToString = fmt.Sprintf("%d", x) *)
(* decimal digits, most significant first; digit characters are '0'+d, here just d *)
Fixpoint digits (fuel : nat) (n : Z) : list Z :=
  match fuel with
  | O => [n mod 10]
  | S f => if n <? 10 then [n] else digits f (n / 10) ++ [n mod 10]
  end.

(* 20 digits suffice for every uint64 *)
Definition to_string (n : Z) : list Z := digits 19 n.

Fixpoint value (ds : list Z) (acc : Z) : Z :=
  match ds with [] => acc | d :: t => value t (acc * 10 + d) end.
Definition of_string (ds : list Z) : Z := value ds 0.

Definition is_digit (d : Z) : bool := (0 <=? d) && (d <=? 9).

(* ---------------------------------------------------------------- MapClear *)
(* a Go map as a list of entries; [keq] is Go's == on keys, which for float
   keys is not reflexive (NaN != NaN).  The ORIGINAL body
       for k := range m { delete(m, k) }
   visits the keys present at the start (each once, in any order) and deletes
   the entries whose key == k.  The repaired body is the builtin clear(m). *)
Section MapClear.
  Context {K V : Type} (keq : K -> K -> bool).
  Definition mdelete (k : K) (m : list (K * V)) : list (K * V) := filter (fun e => negb (keq (fst e) k)) m.
  Definition clear_loop (order : list K) (m : list (K * V)) : list (K * V) := fold_left (fun m k => mdelete k m) order m.
  Definition clear_builtin (m : list (K * V)) : list (K * V) := [].
End MapClear.

(* ---------------------------------------------------------------- Assume / Assert *)
Inductive outcome := Returns | Panics.
Definition assume (c : bool) : outcome := if c then Returns else Panics.
Definition assert (c : bool) : outcome := if c then Returns else Panics.
