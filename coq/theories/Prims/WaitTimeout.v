(* primitive.WaitTimeout (to which machine.WaitTimeout delegates) as a
   transition system:

     func WaitTimeout(cond *sync.Cond, timeoutMs uint64) {
        done := make(chan struct{})
        go func() { cond.Wait(); cond.L.Unlock(); close(done) }()
        select {
        case <-time.After(...): cond.L.Lock(); return
        case <-done:            cond.L.Lock(); return } }

   with sync.Cond.Wait = { add to the notify list; L.Unlock(); wait for a
   signal; L.Lock() }.  The caller calls it holding L, any number of times; each
   call spawns a helper; helpers of timed-out calls stay behind and are woken
   by later signals.  The environment (other goroutines) locks/unlocks L and
   signals/broadcasts at any time; the timer may fire at any time. *)
From Coq Require Import List Arith Lia Bool.
From GV Require Import Conc.Lin.
Import ListNotations.

Inductive owner := OCaller | OHelper (k : nat) | OEnv.
Inductive hst := HNone | H0 | H2 | H3 | H4 | H5 | HEnd.
  (* not spawned / spawned, before Wait / on the notify list, L released / woken, wants L /
     holds L / released L, about to close done / finished *)
Inductive cst := COut | CSel (k : nat) | CLock (k : nat).
  (* outside the call / in the select of call k / past the select, wants L *)

Record wcfg := {
  mu : option owner;          (* who holds cond.L *)
  cal : cst;
  hs : nat -> hst;            (* helper of call k *)
  nh : nat;                   (* number of calls so far *)
  dn : nat -> bool;           (* done channel of call k closed *)
  fired : bool;               (* the timer of the current call has fired *)
  crashed : bool              (* sync: unlock of unlocked mutex (fatal error) *)
}.

Definition w_init : wcfg :=
  {| mu := None; cal := COut; hs := fun _ => HNone; nh := 0; dn := fun _ => false; fired := false; crashed := false |}.

Definition set_mu c m := {| mu := m; cal := cal c; hs := hs c; nh := nh c; dn := dn c; fired := fired c; crashed := crashed c |}.
Definition set_cal c x := {| mu := mu c; cal := x; hs := hs c; nh := nh c; dn := dn c; fired := fired c; crashed := crashed c |}.
Definition set_h c k x := {| mu := mu c; cal := cal c; hs := upd (hs c) k x; nh := nh c; dn := dn c; fired := fired c; crashed := crashed c |}.

Inductive wstep : wcfg -> wcfg -> Prop :=
(* the caller, outside the call *)
| w_c_lock c : cal c = COut -> mu c = None -> wstep c (set_mu c (Some OCaller))
| w_c_unlock c : cal c = COut -> mu c = Some OCaller -> wstep c (set_mu c None)
| w_c_call c : cal c = COut -> mu c = Some OCaller ->
    wstep c {| mu := mu c; cal := CSel (nh c); hs := upd (hs c) (nh c) H0; nh := S (nh c); dn := dn c;
               fired := false; crashed := crashed c |}
(* inside the call *)
| w_timer c k : cal c = CSel k ->
    wstep c {| mu := mu c; cal := cal c; hs := hs c; nh := nh c; dn := dn c; fired := true; crashed := crashed c |}
| w_c_timeout c k : cal c = CSel k -> fired c = true -> wstep c (set_cal c (CLock k))
| w_c_done c k : cal c = CSel k -> dn c k = true -> wstep c (set_cal c (CLock k))
| w_c_return c k : cal c = CLock k -> mu c = None -> wstep c (set_cal (set_mu c (Some OCaller)) COut)
(* helper k *)
| w_h_wait c k : hs c k = H0 ->
    wstep c {| mu := None; cal := cal c; hs := upd (hs c) k H2; nh := nh c; dn := dn c; fired := fired c;
               crashed := match mu c with None => true | Some _ => crashed c end |}
| w_h_acquire c k : hs c k = H3 -> mu c = None -> wstep c (set_h (set_mu c (Some (OHelper k))) k H4)
| w_h_release c k : hs c k = H4 ->
    wstep c {| mu := None; cal := cal c; hs := upd (hs c) k H5; nh := nh c; dn := dn c; fired := fired c;
               crashed := match mu c with None => true | Some _ => crashed c end |}
| w_h_close c k : hs c k = H5 ->
    wstep c {| mu := mu c; cal := cal c; hs := upd (hs c) k HEnd; nh := nh c; dn := upd (dn c) k true;
               fired := fired c; crashed := crashed c |}
(* the environment *)
| w_signal c k : hs c k = H2 -> wstep c (set_h c k H3)
| w_broadcast c :
    wstep c {| mu := mu c; cal := cal c; hs := fun k => match hs c k with H2 => H3 | x => x end; nh := nh c;
               dn := dn c; fired := fired c; crashed := crashed c |}
| w_e_lock c : mu c = None -> wstep c (set_mu c (Some OEnv))
| w_e_unlock c : mu c = Some OEnv -> wstep c (set_mu c None).

Inductive wreach : wcfg -> Prop :=
| wr_init : wreach w_init
| wr_step c c' : wreach c -> wstep c c' -> wreach c'.

Definition in_call (c : wcfg) (k : nat) : Prop := cal c = CSel k \/ cal c = CLock k.

Definition winv (c : wcfg) : Prop :=
  crashed c = false /\
  (forall k, hs c k = H0 -> in_call c k /\ mu c = Some OCaller) /\
  (forall k, hs c k = H4 <-> mu c = Some (OHelper k)) /\
  (mu c = Some OCaller -> cal c = COut \/ exists k, in_call c k /\ hs c k = H0) /\
  (forall k, in_call c k -> S k = nh c) /\
  (forall k, nh c <= k -> hs c k = HNone) /\
  (forall k, dn c k = true -> hs c k = HEnd).

Lemma winv_init : winv w_init.
Proof.
  unfold winv, w_init, in_call; cbn.
  split; [reflexivity|]. split; [intros k H; discriminate|].
  split; [intros k; split; intros H; discriminate|]. split; [intros H; discriminate|].
  split; [intros k [H|H]; discriminate|]. split; [reflexivity|]. intros k H; discriminate.
Qed.

Lemma in_call_unique c k j : (forall k, in_call c k -> S k = nh c) -> in_call c k -> in_call c j -> j = k.
Proof. intros H Hk Hj. apply H in Hk. apply H in Hj. lia. Qed.

Lemma not_in_call_out c k : cal c = COut -> ~ in_call c k.
Proof. intros H [E|E]; congruence. Qed.

Ltac updk := unfold upd in *; repeat match goal with
  | |- context [Nat.eq_dec ?a ?b] => destruct (Nat.eq_dec a b); subst
  | H : context [Nat.eq_dec ?a ?b] |- _ => destruct (Nat.eq_dec a b); subst
  end.

Theorem winv_step c c' : winv c -> wstep c c' -> winv c'.
Proof.
  intros (Hcr & Hh0 & Hh4 & Hmu & Hin & Hnone & Hdn) Hs.
  destruct Hs as [c Hc Hm|c Hc Hm|c Hc Hm|c k Hc|c k Hc Hf|c k Hc Hd|c k Hc Hm
                 |c k Hk|c k Hk Hm|c k Hk|c k Hk|c k Hk|c|c Hm|c Hm];
    unfold winv, in_call, set_mu, set_cal, set_h in *; cbn [mu cal hs nh dn fired crashed] in *.
  - (* caller locks *)
    split; [exact Hcr|]. split.
    { intros k Hk. destruct (Hh0 k Hk) as [[E|E] _]; congruence. }
    split. { intros k. split; [intros Hk; apply Hh4 in Hk; congruence|discriminate]. }
    split; [intros _; now left|]. split; [exact Hin|]. split; [exact Hnone|exact Hdn].
  - (* caller unlocks *)
    split; [exact Hcr|]. split.
    { intros k Hk. destruct (Hh0 k Hk) as [[E|E] _]; congruence. }
    split. { intros k. split; [intros Hk; apply Hh4 in Hk; congruence|discriminate]. }
    split; [discriminate|]. split; [exact Hin|]. split; [exact Hnone|exact Hdn].
  - (* caller calls WaitTimeout *)
    split; [exact Hcr|]. split.
    { intros k Hk. updk; [split; [now left|exact Hm]|]. destruct (Hh0 k Hk) as [[E|E] _]; congruence. }
    split. { intros k. split; intros Hk; updk; try discriminate; try congruence; try (apply Hh4 in Hk; congruence). }
    split. { intros _. right. exists (nh c). split; [now left|]. updk; congruence. }
    split. { intros k [E|E]; congruence. }
    split. { intros k Hk. updk; [lia|]. apply Hnone. lia. }
    intros k Hk. updk; [|now apply Hdn]. pose proof (Hnone (nh c) (le_n _)) as E. apply Hdn in Hk. congruence.
  - (* timer fires *)
    split; [exact Hcr|]. split; [exact Hh0|]. split; [exact Hh4|]. split; [exact Hmu|]. split; [exact Hin|]. split; [exact Hnone|exact Hdn].
  - (* select: timeout *)
    assert (Hic : forall j, (CLock k = CSel j \/ CLock k = CLock j) <-> (cal c = CSel j \/ cal c = CLock j)).
    { intros j. rewrite Hc. split; intros [E|E]; try discriminate; injection E as ->; auto. }
    split; [exact Hcr|]. split. { intros j Hj. destruct (Hh0 j Hj) as [Hi Hm']. split; [now apply Hic|exact Hm']. }
    split; [exact Hh4|]. split.
    { intros Hm'. destruct (Hmu Hm') as [E|(j & Hj & Hj0)]; [congruence|]. right. exists j. split; [now apply Hic|exact Hj0]. }
    split. { intros j Hj. apply Hin. now apply Hic. } split; [exact Hnone|exact Hdn].
  - (* select: done *)
    assert (Hic : forall j, (CLock k = CSel j \/ CLock k = CLock j) <-> (cal c = CSel j \/ cal c = CLock j)).
    { intros j. rewrite Hc. split; intros [E|E]; try discriminate; injection E as ->; auto. }
    split; [exact Hcr|]. split. { intros j Hj. destruct (Hh0 j Hj) as [Hi Hm']. split; [now apply Hic|exact Hm']. }
    split; [exact Hh4|]. split.
    { intros Hm'. destruct (Hmu Hm') as [E|(j & Hj & Hj0)]; [congruence|]. right. exists j. split; [now apply Hic|exact Hj0]. }
    split. { intros j Hj. apply Hin. now apply Hic. } split; [exact Hnone|exact Hdn].
  - (* the caller re-acquires L and returns *)
    split; [exact Hcr|]. split. { intros j Hj. destruct (Hh0 j Hj) as [_ E]. congruence. }
    split. { intros j. split; [intros Hj; apply Hh4 in Hj; congruence|discriminate]. }
    split; [intros _; now left|]. split. { intros j [E|E]; discriminate. } split; [exact Hnone|exact Hdn].
  - (* helper: cond.Wait releases L *)
    destruct (Hh0 k Hk) as [Hik Hm]. rewrite Hm.
    split; [exact Hcr|]. split.
    { intros j Hj. updk; [discriminate|]. destruct (Hh0 j Hj) as [Hij _].
      exfalso. apply n. eapply in_call_unique; eauto. }
    split. { intros j. split; [|discriminate]. intros Hj. updk; [discriminate|]. apply Hh4 in Hj. congruence. }
    split; [discriminate|]. split; [exact Hin|]. split.
    { intros j Hj. updk; [|now apply Hnone]. apply Hnone in Hj. congruence. }
    intros j Hj. updk; [|now apply Hdn]. apply Hdn in Hj. congruence.
  - (* helper: Wait re-acquires L *)
    split; [exact Hcr|]. split.
    { intros j Hj. updk; [discriminate|]. destruct (Hh0 j Hj) as [_ E]. congruence. }
    split. { intros j. split; intros Hj; updk; try reflexivity; try congruence.
             all: try (apply Hh4 in Hj; congruence). all: try (injection Hj as <-; contradiction). }
    split; [discriminate|]. split; [exact Hin|]. split.
    { intros j Hj. updk; [|now apply Hnone]. apply Hnone in Hj. congruence. }
    intros j Hj. updk; [|now apply Hdn]. apply Hdn in Hj. congruence.
  - (* helper: cond.L.Unlock() *)
    pose proof (proj1 (Hh4 k) Hk) as Hm. rewrite Hm.
    split; [exact Hcr|]. split.
    { intros j Hj. updk; [discriminate|]. destruct (Hh0 j Hj) as [_ E]. congruence. }
    split. { intros j. split; [|discriminate]. intros Hj. updk; [discriminate|]. apply Hh4 in Hj. congruence. }
    split; [discriminate|]. split; [exact Hin|]. split.
    { intros j Hj. updk; [|now apply Hnone]. apply Hnone in Hj. congruence. }
    intros j Hj. updk; [|now apply Hdn]. apply Hdn in Hj. congruence.
  - (* helper: close(done) *)
    split; [exact Hcr|]. split. { intros j Hj. updk; [discriminate|]. now apply Hh0. }
    split. { intros j. split; intros Hj; updk; try discriminate; try (now apply Hh4).
             apply Hh4 in Hj. congruence. }
    split. { intros Hm. destruct (Hmu Hm) as [E|(j & Hj & Hj0)]; [now left|]. right. exists j. split; [exact Hj|].
             updk; [congruence|exact Hj0]. }
    split; [exact Hin|]. split.
    { intros j Hj. updk; [|now apply Hnone]. apply Hnone in Hj. congruence. }
    intros j Hj. updk; try reflexivity; try discriminate; now apply Hdn.
  - (* signal wakes helper k *)
    split; [exact Hcr|]. split. { intros j Hj. updk; [discriminate|]. now apply Hh0. }
    split. { intros j. split; intros Hj; updk; try discriminate; try (now apply Hh4).
             apply Hh4 in Hj. congruence. }
    split. { intros Hm. destruct (Hmu Hm) as [E|(j & Hj & Hj0)]; [now left|]. right. exists j. split; [exact Hj|].
             updk; [congruence|exact Hj0]. }
    split; [exact Hin|]. split.
    { intros j Hj. updk; [|now apply Hnone]. apply Hnone in Hj. congruence. }
    intros j Hj. updk; [|now apply Hdn]. apply Hdn in Hj. congruence.
  - (* broadcast *)
    split; [exact Hcr|]. split. { intros j Hj. apply Hh0. destruct (hs c j); congruence. }
    split. { intros j. split; intros Hj.
             - apply Hh4. destruct (hs c j); congruence.
             - apply Hh4 in Hj. now rewrite Hj. }
    split. { intros Hm. destruct (Hmu Hm) as [E|(j & Hj & Hj0)]; [now left|]. right. exists j. split; [exact Hj|]. now rewrite Hj0. }
    split; [exact Hin|]. split. { intros j Hj. now rewrite (Hnone j Hj). }
    intros j Hj. now rewrite (Hdn j Hj).
  - (* environment locks *)
    split; [exact Hcr|]. split. { intros j Hj. destruct (Hh0 j Hj) as [_ E]. congruence. }
    split. { intros j. split; [intros Hj; apply Hh4 in Hj; congruence|discriminate]. }
    split; [discriminate|]. split; [exact Hin|]. split; [exact Hnone|exact Hdn].
  - (* environment unlocks *)
    split; [exact Hcr|]. split. { intros j Hj. destruct (Hh0 j Hj) as [_ E]. congruence. }
    split. { intros j. split; [intros Hj; apply Hh4 in Hj; congruence|discriminate]. }
    split; [discriminate|]. split; [exact Hin|]. split; [exact Hnone|exact Hdn].
Qed.

Theorem wreach_inv c : wreach c -> winv c.
Proof. induction 1; [apply winv_init|eapply winv_step; eauto]. Qed.

(* no run ever unlocks an unlocked mutex (which would be a fatal error) *)
Theorem wait_never_crashes c : wreach c -> crashed c = false.
Proof. intros H. apply (wreach_inv c H). Qed.

(* WaitTimeout returns with the caller's lock held ... *)
Theorem wait_returns_locked c c' k : wreach c -> cal c = CLock k -> wstep c c' -> cal c' = COut ->
  mu c' = Some OCaller.
Proof.
  intros _ Hc Hs Ho. inversion Hs; subst; unfold set_mu, set_cal, set_h in *; cbn [cal mu] in *; try congruence.
Qed.

(* ... and it stays held until the caller itself releases it: once returned
   (or whenever the caller holds L outside the call), no step of a helper —
   including the stale helpers of earlier timed-out calls — of the timer or of
   the environment changes the holder *)
Theorem caller_keeps_lock c c' : wreach c -> cal c = COut -> mu c = Some OCaller -> wstep c c' ->
  mu c' <> mu c -> c' = set_mu c None (* the caller's own Unlock *).
Proof.
  intros Hr Hc Hm Hs Hne. destruct (wreach_inv c Hr) as (_ & Hh0 & Hh4 & _).
  inversion Hs; subst; unfold set_mu, set_cal, set_h in *; cbn [cal mu hs] in *; try congruence.
  - (* a helper about to enter Wait exists only inside a call *)
    match goal with H : hs c ?k = H0 |- _ => destruct (Hh0 k H) as [[E|E] _]; congruence end.
  - match goal with H : hs c ?k = H4 |- _ => apply Hh4 in H; congruence end.
Qed.

(* no deadlock inside the call: in the select the timer can always fire and a
   fired timer lets the caller proceed; and whenever the caller waits for L,
   L is free or its holder has an enabled step that releases it *)
Theorem wait_select_can_proceed c k : wreach c -> cal c = CSel k ->
  exists c1, wstep c c1 /\ cal c1 = CSel k /\ fired c1 = true /\ exists c2, wstep c1 c2 /\ cal c2 = CLock k.
Proof.
  intros _ Hc. eexists. split; [eapply w_timer; eauto|]. cbn [cal fired]. split; [exact Hc|]. split; [reflexivity|].
  eexists. split; [eapply (w_c_timeout _ k); cbn; auto|]. reflexivity.
Qed.

Theorem wait_lock_can_be_released c k : wreach c -> cal c = CLock k ->
  (exists c', wstep c c' /\ cal c' = COut /\ mu c' = Some OCaller)        (* L is free: return *)
  \/ (exists c', wstep c c' /\ mu c' = None /\ cal c' = CLock k).          (* its holder releases it *)
Proof.
  intros Hr Hc. destruct (wreach_inv c Hr) as (_ & Hh0 & Hh4 & Hmu & _).
  destruct (mu c) as [[|j|]|] eqn:Hm.
  - (* still the caller's original hold: the helper of this call has not entered Wait yet *)
    destruct (Hmu eq_refl) as [E|(j & Hj & Hj0)]; [congruence|].
    right. eexists. split; [eapply (w_h_wait c j Hj0)|]. cbn [mu cal]. auto.
  - right. eexists. split; [eapply (w_h_release c j); now apply Hh4|]. cbn [mu cal]. auto.
  - right. eexists. split; [eapply (w_e_unlock c Hm)|]. unfold set_mu; cbn [mu cal]. auto.
  - left. eexists. split; [eapply (w_c_return c k Hc Hm)|]. unfold set_cal, set_mu; cbn [mu cal]. auto.
Qed.

(* Non-vacuity: a run in which a call times out, its stale helper is woken by a
   late signal, and a second call returns through the done channel. *)
Ltac go tac :=
  match goal with R : wreach ?c |- _ =>
    let S := fresh "S" in eassert (S : wstep c _) by tac; apply (wr_step _ _ R) in S; clear R; cbn in S
  end.

Example wait_example_run : exists c, wreach c /\ nh c = 2 /\ cal c = COut /\ mu c = Some OCaller /\ hs c 0 = HEnd.
Proof.
  pose proof wr_init as R.
  go ltac:(apply w_c_lock; reflexivity).
  go ltac:(apply w_c_call; reflexivity).
  go ltac:(apply (w_h_wait _ 0); reflexivity).
  go ltac:(apply (w_timer _ 0); reflexivity).
  go ltac:(apply (w_c_timeout _ 0); reflexivity).
  go ltac:(apply (w_c_return _ 0); reflexivity).
  go ltac:(apply (w_signal _ 0); reflexivity).      (* late signal wakes the stale helper *)
  go ltac:(apply w_c_unlock; reflexivity).
  go ltac:(apply (w_h_acquire _ 0); reflexivity).
  go ltac:(apply (w_h_release _ 0); reflexivity).
  go ltac:(apply (w_h_close _ 0); reflexivity).
  go ltac:(apply w_c_lock; reflexivity).
  go ltac:(apply w_c_call; reflexivity).
  go ltac:(apply (w_h_wait _ 1); reflexivity).
  go ltac:(apply (w_signal _ 1); reflexivity).
  go ltac:(apply (w_h_acquire _ 1); reflexivity).
  go ltac:(apply (w_h_release _ 1); reflexivity).
  go ltac:(apply (w_h_close _ 1); reflexivity).
  go ltac:(apply (w_c_done _ 1); reflexivity).
  go ltac:(apply (w_c_return _ 1); reflexivity).
  match goal with R : wreach ?c |- _ => exists c; split; [exact R|] end. cbn. auto.
Qed.
