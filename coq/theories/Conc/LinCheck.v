(* A decision procedure for linearizability of a recorded history, proved sound
   AND complete, so that both verdicts about a history recorded from the real
   implementation are theorems about that history.

   [lin_from s f h]: the rest [h] of a history (oldest event first) can be
   completed with linearization points from abstract state [s] and per-thread
   status [f].  [go] explores exactly these derivations: before consuming the
   next event it may linearize pending operations; between two events at most
   one linearization per thread is possible, which bounds the inner loop. *)
From Coq Require Import List Arith Lia Bool.
From GV Require Import Conc.Lin.
Import ListNotations.

Section LinCheck.
Context {St Op Res : Type}.
Variable seq : St -> Op -> St * Res.
Variable res_eqb : Res -> Res -> bool.
Hypothesis res_eqb_spec : forall a b, res_eqb a b = true <-> a = b.

Notation lstate := (@lstate Op Res).
Notation hevent := (@hevent Op Res).

Inductive lin_from : St -> (tid -> lstate) -> list hevent -> Prop :=
| lf_nil s f : lin_from s f []
| lf_inv s f t o h : f t = LIdle -> lin_from s (upd f t (LInv o)) h -> lin_from s f (HInv t o :: h)
| lf_resp s f t o r h : f t = LLin o r -> lin_from s (upd f t LIdle) h -> lin_from s f (HResp t r :: h)
| lf_lin s f t o h : f t = LInv o ->
    lin_from (fst (seq s o)) (upd f t (LLin o (snd (seq s o)))) h -> lin_from s f h.

(* ---------------------------------------------------------------- lin_from = linearizable *)
(* traces and histories of Lin.v are newest-first; h here is oldest-first *)
Lemma lin_from_extends s f h : lin_from s f h ->
  forall s0 tau, wf_tr tau f -> legal seq s0 tau s ->
  exists tau' f' s', wf_tr tau' f' /\ legal seq s0 tau' s' /\ history tau' = rev h ++ history tau.
Proof.
  induction 1 as [s f|s f t o h Hf Hl IH|s f t o r h Hf Hl IH|s f t o h Hf Hl IH]; intros s0 tau Hwf Hlg.
  - exists tau, f, s. auto.
  - destruct (IH s0 (EInv t o :: tau)) as (tau' & f' & s' & H1 & H2 & H3);
      [constructor; auto|constructor; auto|].
    exists tau', f', s'. repeat split; auto. rewrite H3. cbn [history rev]. now rewrite <- app_assoc.
  - destruct (IH s0 (EResp t r :: tau)) as (tau' & f' & s' & H1 & H2 & H3);
      [econstructor; eauto|constructor; auto|].
    exists tau', f', s'. repeat split; auto. rewrite H3. cbn [history rev]. now rewrite <- app_assoc.
  - destruct (IH s0 (ELin t o (snd (seq s o)) :: tau)) as (tau' & f' & s' & H1 & H2 & H3);
      [constructor; auto|constructor; auto|].
    exists tau', f', s'. repeat split; auto.
Qed.

Theorem lin_from_linearizable s0 h :
  lin_from s0 (fun _ => LIdle) h -> linearizable seq s0 (rev h).
Proof.
  intros H. destruct (lin_from_extends _ _ _ H s0 [] (wf_nil) (lg_nil seq s0)) as (tau & f & s & H1 & H2 & H3).
  exists tau, f, s. repeat split; auto. rewrite H3. cbn. apply app_nil_r.
Qed.

(* conversely, a well-formed legal trace gives a derivation *)
Lemma lin_from_of_trace s0 tau f s : wf_tr tau f -> legal seq s0 tau s ->
  forall h, lin_from s f h -> lin_from s0 (fun _ => LIdle) (rev (history tau) ++ h).
Proof.
  intros Hwf. revert s.
  induction Hwf as [|tau f t o Hwf IH Hf|tau f t o r Hwf IH Hf|tau f t o r Hwf IH Hf]; intros s Hlg h Hh.
  - inversion Hlg; subst. exact Hh.
  - inversion Hlg; subst. cbn [history rev]. rewrite <- app_assoc. cbn [app].
    eapply IH; eauto. constructor; auto.
  - inversion Hlg as [| | |tau' s1 t' o' r' Hl1 Hr1]; subst. cbn [history].
    eapply IH; eauto. eapply lf_lin; eauto.
  - inversion Hlg; subst. cbn [history rev]. rewrite <- app_assoc. cbn [app].
    eapply IH; eauto. econstructor; eauto.
Qed.

Theorem linearizable_lin_from s0 h :
  linearizable seq s0 (rev h) -> lin_from s0 (fun _ => LIdle) h.
Proof.
  intros (tau & f & s & Hh & Hwf & Hlg).
  pose proof (lin_from_of_trace s0 tau f s Hwf Hlg [] (lf_nil s f)) as H.
  rewrite Hh, rev_involutive, app_nil_r in H. exact H.
Qed.

(* ---------------------------------------------------------------- the checker *)
Variable ts : list tid.     (* the threads that occur in the history *)

Fixpoint go (h : list hevent) : nat -> St -> (tid -> lstate) -> bool :=
  fix loop (k : nat) (s : St) (f : tid -> lstate) {struct k} : bool :=
    match h with
    | [] => true
    | HInv t o :: h' =>
        match f t with LIdle => go h' (length ts) s (upd f t (LInv o)) | _ => false end
    | HResp t r :: h' =>
        match f t with
        | LLin o r' => res_eqb r r' && go h' (length ts) s (upd f t LIdle)
        | _ => false
        end
    end
    || match k with
       | O => false
       | S k' =>
           existsb (fun t => match f t with
                             | LInv o => loop k' (fst (seq s o)) (upd f t (LLin o (snd (seq s o))))
                             | _ => false
                             end) ts
       end.

Definition lin_check (s0 : St) (h : list hevent) : bool := go h (length ts) s0 (fun _ => LIdle).

Lemma go_unfold h k s f :
  go h k s f =
  (match h with
   | [] => true
   | HInv t o :: h' => match f t with LIdle => go h' (length ts) s (upd f t (LInv o)) | _ => false end
   | HResp t r :: h' => match f t with
                        | LLin o r' => res_eqb r r' && go h' (length ts) s (upd f t LIdle)
                        | _ => false end
   end
   || match k with
      | O => false
      | S k' => existsb (fun t => match f t with
                                  | LInv o => go h k' (fst (seq s o)) (upd f t (LLin o (snd (seq s o))))
                                  | _ => false end) ts
      end).
Proof. destruct h as [|[t o|t r] h']; destruct k; reflexivity. Qed.

Theorem go_sound h : forall k s f, go h k s f = true -> lin_from s f h.
Proof.
  induction h as [|e h IH]; intros k; induction k as [|k IHk]; intros s f Hg;
    rewrite go_unfold in Hg; apply orb_prop in Hg.
  - constructor.
  - constructor.
  - destruct Hg as [Hg|Hg]; [|discriminate].
    destruct e as [t o|t r].
    + destruct (f t) eqn:Hf; try discriminate. constructor; eauto.
    + destruct (f t) as [|o|o r'] eqn:Hf; try discriminate.
      apply andb_prop in Hg as [He Hg]. apply res_eqb_spec in He. subst r'. econstructor; eauto.
  - destruct Hg as [Hg|Hg].
    + destruct e as [t o|t r].
      * destruct (f t) eqn:Hf; try discriminate. constructor; eauto.
      * destruct (f t) as [|o|o r'] eqn:Hf; try discriminate.
        apply andb_prop in Hg as [He Hg]. apply res_eqb_spec in He. subst r'. econstructor; eauto.
    + apply existsb_exists in Hg as (t & Hin & Hg).
      destruct (f t) as [|o|o r'] eqn:Hf; try discriminate. eapply lf_lin; eauto.
Qed.

(* number of occurrences in ts of threads with a pending, not yet linearized operation *)
Definition is_inv (l : lstate) : bool := match l with LInv _ => true | _ => false end.
Definition count_inv (f : tid -> lstate) : nat := length (filter (fun t => is_inv (f t)) ts).

Lemma count_inv_le f : count_inv f <= length ts.
Proof.
  unfold count_inv. induction ts as [|x xs IH]; [apply Nat.le_refl|].
  cbn [filter]. destruct (is_inv (f x)); cbn [length]; [apply le_n_S|apply Nat.le_le_succ_r]; exact IH.
Qed.

Lemma count_inv_lin f t o r : f t = LInv o -> In t ts ->
  count_inv (upd f t (LLin o r)) < count_inv f.
Proof.
  intros Hf Hin. unfold count_inv. induction ts as [|x xs IH]; [destruct Hin|].
  cbn [filter]. unfold upd at 1. destruct (Nat.eq_dec x t) as [->|Hne].
  - rewrite Hf. cbn [is_inv length].
    apply Nat.lt_succ_r.
    clear IH Hin. induction xs as [|y ys IHy]; [apply Nat.le_refl|].
    cbn [filter]. unfold upd at 1. destruct (Nat.eq_dec y t) as [->|Hn].
    + rewrite Hf. cbn [is_inv length]. apply Nat.le_le_succ_r. exact IHy.
    + destruct (is_inv (f y)); cbn [length]; [apply le_n_S|]; exact IHy.
  - destruct Hin as [->|Hin]; [contradiction|]. specialize (IH Hin).
    destruct (is_inv (f x)); cbn [length]; [apply Nat.succ_lt_mono in IH|]; exact IH.
Qed.

Definition threads_in (h : list hevent) : Prop :=
  forall e, In e h -> In (match e with HInv t _ | HResp t _ => t end) ts.

Theorem go_complete s f h : lin_from s f h ->
  threads_in h -> (forall t, f t <> LIdle -> In t ts) ->
  forall k, count_inv f <= k -> go h k s f = true.
Proof.
  induction 1 as [s f|s f t o h Hf Hl IH|s f t o r h Hf Hl IH|s f t o h Hf Hl IH]; intros Hth Hts k Hk;
    rewrite go_unfold.
  - reflexivity.
  - rewrite Hf. rewrite IH; [reflexivity| | |apply count_inv_le].
    + intros e He. apply Hth. now right.
    + intros t' Ht'. unfold upd in Ht'. destruct (Nat.eq_dec t' t) as [->|]; [|auto].
      apply (Hth (HInv t o)). now left.
  - rewrite Hf. rewrite (proj2 (res_eqb_spec r r) eq_refl). rewrite IH; [reflexivity| | |apply count_inv_le].
    + intros e He. apply Hth. now right.
    + intros t' Ht'. unfold upd in Ht'. destruct (Nat.eq_dec t' t) as [->|]; [contradiction|auto].
  - assert (Hin : In t ts) by (apply Hts; congruence).
    pose proof (count_inv_lin f t o (snd (seq s o)) Hf Hin) as Hlt.
    destruct k as [|k]; [lia|].
    apply orb_true_iff. right. apply existsb_exists. exists t. split; [exact Hin|].
    rewrite Hf. apply IH; auto; [|lia].
    intros t' Ht'. unfold upd in Ht'. destruct (Nat.eq_dec t' t) as [->|]; [exact Hin|auto].
Qed.

(* The checker decides linearizability of the recorded history. *)
Theorem lin_check_correct s0 h : threads_in h ->
  (lin_check s0 h = true <-> linearizable seq s0 (rev h)).
Proof.
  intros Hth. split.
  - intros H. apply lin_from_linearizable. eapply go_sound. exact H.
  - intros H. apply linearizable_lin_from in H. unfold lin_check.
    eapply go_complete; eauto.
    + intros t Ht. contradiction.
    + apply count_inv_le.
Qed.

End LinCheck.
