(* The verified checker instantiated for disks: decides whether a recorded
   history of Read/ReadTo/Write/Size calls is linearizable w.r.t. the
   register-array specification. *)
From Coq Require Import List ZArith Lia Bool Arith.
From GV Require Import Disk.Disk Conc.Lin Conc.LinCheck.
Import ListNotations.
Open Scope Z_scope.

Fixpoint block_eqb (a b : block) : bool :=
  match a, b with
  | [], [] => true
  | x :: a', y :: b' => Z.eqb x y && block_eqb a' b'
  | _, _ => false
  end.

Lemma block_eqb_spec a b : block_eqb a b = true <-> a = b.
Proof.
  revert b; induction a as [|x a IH]; intros [|y b]; cbn; split; intros H; try discriminate; auto.
  - apply andb_prop in H as [H1 H2]. apply Z.eqb_eq in H1. apply IH in H2. congruence.
  - injection H as -> ->. rewrite Z.eqb_refl. now apply IH.
Qed.

Definition out_eqb (a b : out) : bool :=
  match a, b with
  | RBlock x, RBlock y => block_eqb x y
  | RUnit, RUnit => true
  | RSize x, RSize y => Z.eqb x y
  | RRefused, RRefused => true
  | _, _ => false
  end.

Lemma out_eqb_spec a b : out_eqb a b = true <-> a = b.
Proof.
  destruct a, b; cbn; split; intros H; try discriminate; auto.
  - apply block_eqb_spec in H. congruence.
  - injection H as ->. now apply block_eqb_spec.
  - apply Z.eqb_eq in H. congruence.
  - injection H as ->. apply Z.eqb_refl.
Qed.

Definition disk_lin_check (bs : nat) (n : Z) (ts : list tid) (h : list (@hevent op out)) : bool :=
  lin_check (regs_step bs) out_eqb ts (regs_init bs n) h.

Theorem disk_lin_check_correct bs n ts h : threads_in ts h ->
  (disk_lin_check bs n ts h = true <-> linearizable (regs_step bs) (regs_init bs n) (rev h)).
Proof. apply lin_check_correct. exact out_eqb_spec. Qed.
