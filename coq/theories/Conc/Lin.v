(* Linearizability of histories with respect to a sequential object
   [seq : St -> Op -> St * Res], in its linearization-point form:

   a history (invocation and response events of threads, each thread having at
   most one operation outstanding) is linearizable iff a linearization point
   can be inserted for (some of the pending and all of the completed)
   operations, each between the invocation and the response of its operation,
   such that the operations taken in the order of their linearization points
   form an execution of the sequential object whose results are the responses.
   Pending operations may or may not have taken effect.  Since the points lie
   inside the operations' intervals, the order respects real time.  (This is
   the standard characterisation of Herlihy-Wing linearizability.) *)
From Coq Require Import List Arith Lia Bool.
Import ListNotations.

Definition tid := nat.

Definition upd {A} (f : tid -> A) (t : tid) (x : A) : tid -> A :=
  fun t' => if Nat.eq_dec t' t then x else f t'.

Lemma upd_same {A} (f : tid -> A) t x : upd f t x t = x.
Proof. unfold upd. destruct (Nat.eq_dec t t); congruence. Qed.
Lemma upd_other {A} (f : tid -> A) t t' x : t' <> t -> upd f t x t' = f t'.
Proof. unfold upd. destruct (Nat.eq_dec t' t); congruence. Qed.

Section Lin.
Context {St Op Res : Type}.

Inductive event :=
| EInv (t : tid) (o : Op)
| ELin (t : tid) (o : Op) (r : Res)        (* linearization point *)
| EResp (t : tid) (r : Res).

(* Traces are kept newest-first. A trace with linearization points is
   well-formed when every thread's events follow  Inv ; Lin ; Resp  with the
   response carrying the value fixed at the linearization point ... *)
Inductive lstate := LIdle | LInv (o : Op) | LLin (o : Op) (r : Res).

Inductive wf_tr : list event -> (tid -> lstate) -> Prop :=
| wf_nil : wf_tr [] (fun _ => LIdle)
| wf_inv tau f t o : wf_tr tau f -> f t = LIdle -> wf_tr (EInv t o :: tau) (upd f t (LInv o))
| wf_lin tau f t o r : wf_tr tau f -> f t = LInv o -> wf_tr (ELin t o r :: tau) (upd f t (LLin o r))
| wf_resp tau f t o r : wf_tr tau f -> f t = LLin o r -> wf_tr (EResp t r :: tau) (upd f t LIdle).

Variable seq : St -> Op -> St * Res.

(* ... and legal when the linearization points, in trace order, form an
   execution of the sequential object. *)
Inductive legal (s0 : St) : list event -> St -> Prop :=
| lg_nil : legal s0 [] s0
| lg_inv tau s t o : legal s0 tau s -> legal s0 (EInv t o :: tau) s
| lg_resp tau s t r : legal s0 tau s -> legal s0 (EResp t r :: tau) s
| lg_lin tau s t o r : legal s0 tau s -> r = snd (seq s o) ->
    legal s0 (ELin t o r :: tau) (fst (seq s o)).

(* the history: what clients can observe *)
Inductive hevent := HInv (t : tid) (o : Op) | HResp (t : tid) (r : Res).
Fixpoint history (tau : list event) : list hevent :=
  match tau with
  | [] => []
  | EInv t o :: tau' => HInv t o :: history tau'
  | EResp t r :: tau' => HResp t r :: history tau'
  | ELin _ _ _ :: tau' => history tau'
  end.

Definition linearizable (s0 : St) (h : list hevent) : Prop :=
  exists tau f s, history tau = h /\ wf_tr tau f /\ legal s0 tau s.

End Lin.

(* Linearizability transfers along a simulation between sequential objects:
   if every operation invoked in the history is [ok] and [R] is preserved with
   equal results on ok operations, a history linearizable for seq1 from s1 is
   linearizable for seq2 from any R-related s2. *)
Section Transfer.
Context {S1 S2 Op Res : Type}.
Variables (seq1 : S1 -> Op -> S1 * Res) (seq2 : S2 -> Op -> S2 * Res).
Variable R : S1 -> S2 -> Prop.
Variable ok : Op -> Prop.
Hypothesis sim : forall s1 s2 o, R s1 s2 -> ok o ->
  snd (seq1 s1 o) = snd (seq2 s2 o) /\ R (fst (seq1 s1 o)) (fst (seq2 s2 o)).

Definition ops_ok (tau : list (@event Op Res)) : Prop :=
  forall t o r, In (ELin t o r) tau -> ok o.

Lemma legal_transfer s1 s2 tau a : R s1 s2 -> ops_ok tau -> legal seq1 s1 tau a ->
  exists b, legal seq2 s2 tau b /\ R a b.
Proof.
  intros HR Hok Hl. induction Hl as [|tau s t o Hl IH|tau s t r Hl IH|tau s t o r Hl IH Hr].
  - exists s2. split; [constructor|exact HR].
  - destruct IH as (b & Hb & HRb). { intros t' o' r' H. eapply Hok. right. exact H. }
    exists b. split; [constructor; exact Hb|exact HRb].
  - destruct IH as (b & Hb & HRb). { intros t' o' r' H. eapply Hok. right. exact H. }
    exists b. split; [constructor; exact Hb|exact HRb].
  - destruct IH as (b & Hb & HRb). { intros t' o' r' H. eapply Hok. right. exact H. }
    assert (Ho : ok o) by (eapply Hok; left; reflexivity).
    destruct (sim s b o HRb Ho) as [E HR'].
    exists (fst (seq2 b o)). split; [|exact HR'].
    constructor; [exact Hb|congruence].
Qed.

(* every linearized operation was invoked, so it suffices that invoked operations are ok *)
Lemma wf_lin_invoked (tau : list (@event Op Res)) f : wf_tr tau f ->
  (forall t o, In (EInv t o) tau -> ok o) ->
  (forall t, match f t with LInv o | LLin o _ => ok o | LIdle => True end) /\ ops_ok tau.
Proof.
  induction 1 as [|tau f t o Hwf IH Hf|tau f t o r Hwf IH Hf|tau f t o r Hwf IH Hf]; intros Hinv.
  - split; [intros t; exact I|]. intros t o r [].
  - destruct IH as [Hfs Hops]. { intros; apply (Hinv t0); now right. }
    split.
    + intros t'. unfold upd. destruct (Nat.eq_dec t' t); [|apply Hfs]. apply (Hinv t). now left.
    + intros t' o' r' [H|H]; [discriminate|]. eapply Hops; eauto.
  - destruct IH as [Hfs Hops]. { intros; apply (Hinv t0); now right. }
    pose proof (Hfs t) as Ht. rewrite Hf in Ht.
    split.
    + intros t'. unfold upd. destruct (Nat.eq_dec t' t); [exact Ht|apply Hfs].
    + intros t' o' r' [H|H]; [injection H as <- <- <-; exact Ht|]. eapply Hops; eauto.
  - destruct IH as [Hfs Hops]. { intros; apply (Hinv t0); now right. }
    split.
    + intros t'. unfold upd. destruct (Nat.eq_dec t' t); [exact I|apply Hfs].
    + intros t' o' r' [H|H]; [discriminate|]. eapply Hops; eauto.
Qed.

Lemma In_history_inv (tau : list (@event Op Res)) t o : In (EInv t o) tau -> In (HInv t o) (history tau).
Proof.
  induction tau as [|e tau IH]; [intros []|].
  intros [->|H]; [now left|]. destruct e; cbn [history]; auto; right; auto.
Qed.

Theorem linearizable_transfer s1 s2 h : R s1 s2 ->
  (forall t o, In (HInv t o) h -> ok o) ->
  linearizable seq1 s1 h -> linearizable seq2 s2 h.
Proof.
  intros HR Hok (tau & f & a & Hh & Hwf & Hl).
  assert (Hops : ops_ok tau).
  { apply (wf_lin_invoked tau f Hwf). intros t o Hin. apply (Hok t). rewrite <- Hh.
    now apply In_history_inv. }
  destruct (legal_transfer s1 s2 tau a HR Hops Hl) as (b & Hb & _).
  exists tau, f, b. auto.
Qed.
End Transfer.
