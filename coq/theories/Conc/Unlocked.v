(* Non-vacuity of the locking hypothesis: the same micro-step system WITHOUT
   the lock conditions reaches a torn read, and that history is not
   linearizable.  (So the theorem of SingleLock.v is not true for trivial
   reasons, and the per-run lock-shape obligations matter.) *)
From Coq Require Import List ZArith Lia Bool Arith.
From GV Require Import Disk.Disk Conc.Lin Conc.SingleLock Conc.MemDiskConc Conc.LinCheck Conc.DiskLin.
Import ListNotations.
Open Scope Z_scope.

Section Unlocked.
Context {St L Op Res : Type}.
Variable prog : Op -> list (@mstep St L).
Variable init : Op -> L.
Variable result : Op -> L -> Res.

(* state: shared state, thread states, trace (invocations/responses only) *)
Record ucfg := { ust : St; uthr : tid -> @tstate St L Op Res; utr : list (@hevent Op Res) }.

Inductive uaction := AInvoke (t : tid) (o : Op) | AStart (t : tid) | AMicro (t : tid) | AReturn (t : tid).

Definition ustep (c : ucfg) (a : uaction) : option ucfg :=
  match a with
  | AInvoke t o => match uthr c t with
                   | Idle => Some {| ust := ust c; uthr := upd (uthr c) t (Waiting o); utr := HInv t o :: utr c |}
                   | _ => None end
  | AStart t => match uthr c t with
                | Waiting o => Some {| ust := ust c; uthr := upd (uthr c) t (Running o (prog o) (init o) (result o (init o))); utr := utr c |}
                | _ => None end
  | AMicro t => match uthr c t with
                | Running o (m :: rest) l r =>
                    Some {| ust := fst (m (ust c) l); uthr := upd (uthr c) t (Running o rest (snd (m (ust c) l)) r); utr := utr c |}
                | _ => None end
  | AReturn t => match uthr c t with
                 | Running o [] l r => Some {| ust := ust c; uthr := upd (uthr c) t Idle; utr := HResp t (result o l) :: utr c |}
                 | _ => None end
  end.

Fixpoint urun (c : ucfg) (acts : list uaction) : option ucfg :=
  match acts with
  | [] => Some c
  | a :: rest => match ustep c a with Some c' => urun c' rest | None => None end
  end.
End Unlocked.

(* MemDisk with 1 block of 2 bytes; thread 0 writes [1;1], thread 1 reads while
   the write is half done. *)
Definition torn_schedule : list (@uaction op) :=
  [AInvoke 0%nat (OWrite 0 [1; 1]); AInvoke 1%nat (ORead 0); AStart 0%nat; AMicro 0%nat;
   AStart 1%nat; AMicro 1%nat; AMicro 1%nat; AReturn 1%nat; AMicro 0%nat; AReturn 0%nat].

Definition torn_history : list (@hevent op out) :=
  match urun (prog 2 1) (init 2) (result 2 1)
             {| ust := mem_init 2 1; uthr := fun _ => Idle; utr := [] |} torn_schedule with
  | Some c => utr c
  | None => []
  end.

Example unlocked_read_is_torn :
  torn_history = [HResp 0%nat RUnit; HResp 1%nat (RBlock [1; 0]); HInv 1%nat (ORead 0); HInv 0%nat (OWrite 0 [1; 1])].
Proof. vm_compute. reflexivity. Qed.

(* the block [1;0] was never written and is not the initial block: the history
   is not linearizable for the register specification (decided by the complete checker) *)
Example unlocked_not_linearizable :
  ~ linearizable (regs_step 2) (regs_init 2 1) torn_history.
Proof.
  intros H. rewrite <- (rev_involutive torn_history) in H.
  apply (disk_lin_check_correct 2 1 [0%nat; 1%nat]) in H.
  - vm_compute in H. discriminate.
  - intros e He. vm_compute in He.
    repeat (destruct He as [<-|He]; [cbn; auto|]); destruct He.
Qed.
