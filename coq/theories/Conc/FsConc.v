(* MemFs (machine/filesys/mem.go) as a single-lock object: every exported
   method is  fs.m.Lock(); defer fs.m.Unlock(); body  (Oblig/O14.v checks this on
   the regenerated skeletons), so each operation is ONE atomic step of the
   sequential MemFs model under the mutex. *)
From Coq Require Import List ZArith Lia Bool Arith.
From GV Require Import Fs.Fs Fs.FsProofs Conc.Lin Conc.SingleLock Conc.LinCheck.
Import ListNotations.

Definition fmd (o : fop) : mode := MW.
Definition fprog (o : fop) : list (@mstep memfs (option fout)) :=
  [fun s _ => (fst (memfs_step s o), Some (snd (memfs_step s o)))].
Definition finit (o : fop) : option fout := None.
Definition fresult (o : fop) (l : option fout) : fout := match l with Some r => r | None => OInvalid end.

Lemma f_reader_pure : forall o, fmd o = MR -> Forall pure (fprog o).
Proof. discriminate. Qed.
Lemma f_free_prog : forall o, fmd o = MFree -> fprog o = [].
Proof. discriminate. Qed.

Lemma f_atomic s o : seq_atomic fprog finit fresult s o = memfs_step s o.
Proof. unfold seq_atomic, atomic, fprog. cbn. now destruct (memfs_step s o). Qed.

(* legality only depends on the sequential object extensionally *)
Lemma legal_ext {St Op Res} (seq1 seq2 : St -> Op -> St * Res) :
  (forall s o, seq1 s o = seq2 s o) -> forall s0 tau a, legal seq1 s0 tau a -> legal seq2 s0 tau a.
Proof.
  intros E s0 tau a H. induction H; try (constructor; auto).
  rewrite E. constructor; auto. now rewrite <- E.
Qed.

Theorem memfs_linearizable c :
  reachable fmd fprog finit fresult memfs_init c ->
  linearizable memfs_step memfs_init (history (tr c)).
Proof.
  intros H.
  destruct (single_lock_linearizable fmd fprog finit fresult f_reader_pure f_free_prog memfs_init c H)
    as (tau & f & a & Hh & Hwf & Hl).
  exists tau, f, a. repeat split; auto. eapply legal_ext; [|exact Hl]. exact f_atomic.
Qed.

(* ---------------------------------------------------------------- transfer to the reference model *)
(* the operations of a trace in the order of their linearization points (oldest first) *)
Fixpoint lin_ops (tau : list (@event fop fout)) : list fop :=
  match tau with
  | [] => []
  | ELin _ o _ :: tau' => lin_ops tau' ++ [o]
  | _ :: tau' => lin_ops tau'
  end.

Lemma frun_app {S} (step : S -> fop -> S * fout) h1 h2 s :
  fouts step s (h1 ++ h2) = fouts step s h1 ++ fouts step (fst (frun step s h1)) h2.
Proof.
  revert s; induction h1 as [|o h1 IH]; intros s; [reflexivity|].
  rewrite <- app_comm_cons, !fouts_cons. cbn [frun]. destruct (step s o) as [s' r]. cbn [fst snd].
  rewrite IH. destruct (frun step s' h1). reflexivity.
Qed.

Lemma frun_snoc_fst {S} (step : S -> fop -> S * fout) h o : forall s,
  fst (frun step s (h ++ [o])) = fst (step (fst (frun step s h)) o).
Proof.
  induction h as [|x h IH]; intros s; cbn [app frun fst].
  - destruct (step s o). reflexivity.
  - destruct (step s x) as [s' r']. specialize (IH s').
    destruct (frun step s' h) as [s1 r1]. destruct (frun step s' (h ++ [o])) as [s2 r2].
    cbn [fst] in *. exact IH.
Qed.

Lemma legal_memfs_to_ref tau a : legal memfs_step memfs_init tau a ->
  valid_history (lin_ops tau) ->
  exists b, legal ref_step fs_init tau b /\ Rmemfs a b /\ ref_inv b /\
            b = fst (frun ref_step fs_init (lin_ops tau)).
Proof.
  induction 1 as [|tau s t o Hl IH|tau s t r Hl IH|tau s t o r Hl IH Hr]; intros Hv.
  - exists fs_init. split; [constructor|]. split; [apply Rmemfs_init|]. split; [apply ref_inv_init|reflexivity].
  - destruct (IH Hv) as (b & H1 & H2 & H3 & H4). exists b. split; [now constructor|]. split; [exact H2|]. split; [exact H3|exact H4].
  - destruct (IH Hv) as (b & H1 & H2 & H3 & H4). exists b. split; [now constructor|]. split; [exact H2|]. split; [exact H3|exact H4].
  - cbn [lin_ops] in Hv. unfold valid_history in Hv. rewrite frun_app in Hv.
    assert (Hv1 : valid_history (lin_ops tau)) by (intros Hin; apply Hv, in_or_app; now left).
    destruct (IH Hv1) as (b & H1 & H2 & H3 & H4).
    assert (Hvo : snd (ref_step b o) <> OInvalid).
    { intros E. apply Hv, in_or_app. right. rewrite <- H4, fouts_cons, E. now left. }
    destruct (memfs_sim s b o H2 H3 Hvo) as [E HR'].
    exists (fst (ref_step b o)). split; [|split; [exact HR'|split]].
    + constructor; [exact H1|congruence].
    + now apply ref_step_inv.
    + cbn [lin_ops]. rewrite H4. symmetry. apply frun_snoc_fst.
Qed.

(* THE THEOREM for MemFs: every reachable history has linearization points that
   are legal for the MemFs model and — whenever the operations, taken in that
   linearization order, respect the documented preconditions — legal for the
   reference model too. *)
Theorem memfs_linearizable_ref c :
  reachable fmd fprog finit fresult memfs_init c ->
  exists tau f, history tau = history (tr c) /\ wf_tr tau f /\
    (exists a, legal memfs_step memfs_init tau a) /\
    (valid_history (lin_ops tau) -> exists b, legal ref_step fs_init tau b).
Proof.
  intros H. destruct (memfs_linearizable c H) as (tau & f & a & Hh & Hwf & Hl).
  exists tau, f. repeat split; eauto.
  intros Hv. destruct (legal_memfs_to_ref tau a Hl Hv) as (b & Hb & _). eauto.
Qed.

(* ---------------------------------------------------------------- the verified checker for recorded histories *)
Fixpoint bytes_eqb (a b : bytes) : bool :=
  match a, b with
  | [], [] => true
  | x :: a', y :: b' => Z.eqb x y && bytes_eqb a' b'
  | _, _ => false
  end.
Lemma bytes_eqb_spec a b : bytes_eqb a b = true <-> a = b.
Proof.
  revert b; induction a as [|x a IH]; intros [|y b]; cbn; split; intros H; try discriminate; auto.
  - apply andb_prop in H as [H1 H2]. apply Z.eqb_eq in H1. apply IH in H2. congruence.
  - injection H as -> ->. rewrite Z.eqb_refl. now apply IH.
Qed.
Fixpoint nats_eqb (a b : list nat) : bool :=
  match a, b with
  | [], [] => true
  | x :: a', y :: b' => Nat.eqb x y && nats_eqb a' b'
  | _, _ => false
  end.
Lemma nats_eqb_spec a b : nats_eqb a b = true <-> a = b.
Proof.
  revert b; induction a as [|x a IH]; intros [|y b]; cbn; split; intros H; try discriminate; auto.
  - apply andb_prop in H as [H1 H2]. apply Nat.eqb_eq in H1. apply IH in H2. congruence.
  - injection H as -> ->. rewrite Nat.eqb_refl. now apply IH.
Qed.

Definition fout_eqb (a b : fout) : bool :=
  match a, b with
  | OFd x, OFd y => Nat.eqb x y
  | ONoFd, ONoFd | OUnit, OUnit | OInvalid, OInvalid => true
  | OBytes x, OBytes y => bytes_eqb x y
  | OBool x, OBool y => Bool.eqb x y
  | ONames x, ONames y => nats_eqb x y
  | _, _ => false
  end.
Lemma fout_eqb_spec a b : fout_eqb a b = true <-> a = b.
Proof.
  destruct a, b; cbn; split; intros H; try discriminate; auto;
    try (apply Nat.eqb_eq in H; congruence); try (injection H as ->; apply Nat.eqb_refl);
    try (apply bytes_eqb_spec in H; congruence); try (injection H as ->; now apply bytes_eqb_spec);
    try (apply Bool.eqb_prop in H; congruence); try (injection H as ->; apply Bool.eqb_reflx);
    try (apply nats_eqb_spec in H; congruence); try (injection H as ->; now apply nats_eqb_spec).
Qed.

(* descriptor numbers erased: for the directory-backed implementation, whose
   descriptor numbers are the kernel's *)
Definition erase_fd (r : fout) : fout := match r with OFd _ => OFd 0 | _ => r end.
Definition ref_step_erased (s : fs) (o : fop) : fs * fout :=
  let '(s', r) := ref_step s o in (s', erase_fd r).

Definition fs_lin_check (erased : bool) (ts : list tid) (h : list (@hevent fop fout)) : bool :=
  lin_check (if erased then ref_step_erased else ref_step) fout_eqb ts fs_init h.

Theorem fs_lin_check_correct erased ts h : threads_in ts h ->
  (fs_lin_check erased ts h = true <->
   linearizable (if erased then ref_step_erased else ref_step) fs_init (rev h)).
Proof. apply lin_check_correct. exact fout_eqb_spec. Qed.
