(* Boolean predicates on statement skeletons that establish the shape the
   single-lock theorem assumes: which lock (and mode) brackets which accesses.
   They are evaluated by the kernel on the skeletons regenerated from /repo
   (Oblig/O10.v, O14.v). Unknown statement shapes (SOther) fail closed. *)
From Coq Require Import String List Bool Ascii Arith.
From GV Require Import Base.Skel.
Import ListNotations.
Open Scope string_scope.

(* does any expression text of s, or of a statement nested in s, contain p? *)
Fixpoint mentions (p : string) (s : sk) : bool :=
  any_contains p (texts_of s) ||
  match s with
  | SIf _ thn els => existsb (mentions p) thn || existsb (mentions p) els
  | SFor _ b | SRange _ b => existsb (mentions p) b
  | _ => false
  end.

Fixpoint has_other (s : sk) : bool :=
  match s with
  | SOther _ => true
  | SIf _ thn els => existsb has_other thn || existsb has_other els
  | SFor _ b | SRange _ b => existsb has_other b
  | _ => false
  end.

(* split a body at the first top-level statement  lock()  followed by  defer unlock() *)
Definition is_call0 (c : string) (s : sk) : bool :=
  match s with SCall [] c' [] => String.eqb c c' | _ => false end.
Definition is_defer0 (c : string) (s : sk) : bool :=
  match s with SDefer c' [] => String.eqb c c' | _ => false end.

Fixpoint split_lock (lock unlock : string) (ss : list sk) : option (list sk * list sk) :=
  match ss with
  | [] => None
  | s :: rest =>
      if is_call0 lock s && match rest with d :: _ => is_defer0 unlock d | [] => false end
      then Some ([], tl rest)
      else match split_lock lock unlock rest with
           | Some (pre, body) => Some (s :: pre, body)
           | None => None
           end
  end.

(* a statement that writes through an expression containing p:
   an assignment whose left side contains p, copy(dst, ..) with dst containing p,
   delete(m, ..) with m containing p, or append assigned to something containing p *)
Fixpoint writes_to (p : string) (s : sk) : bool :=
  match s with
  | SAssign lhs _ => any_contains p lhs
  | SCall asg c args =>
      any_contains p asg ||
      ((String.eqb c "copy" || String.eqb c "delete") && match args with a :: _ => contains p a | [] => false end)
  | SIf _ thn els => existsb (writes_to p) thn || existsb (writes_to p) els
  | SFor _ b | SRange _ b => existsb (writes_to p) b
  | _ => false
  end.

(* the shared data [acc] is touched only inside  lock(); defer unlock(); ...  *)
Definition guarded_by (lock unlock acc : string) (ss : list sk) : bool :=
  negb (existsb has_other ss) &&
  match split_lock lock unlock ss with
  | Some (pre, body) =>
      negb (existsb (mentions acc) pre) &&
      negb (existsb (mentions lock) body) && negb (existsb (mentions unlock) body)   (* not released early / re-taken *)
  | None => negb (existsb (mentions acc) ss)       (* never touches it at all *)
  end.

(* ... and under a read lock nothing is written *)
Definition read_guarded_by (rlock runlock acc : string) (ss : list sk) : bool :=
  guarded_by rlock runlock acc ss && negb (existsb (writes_to acc) ss).

Definition never_mentions (acc : string) (ss : list sk) : bool := negb (existsb (mentions acc) ss).
Definition never_writes (acc : string) (ss : list sk) : bool := negb (existsb (writes_to acc) ss).

(* whole-struct predicate: every method of a type whose key starts with [pre]
   satisfies [ok] *)
Definition all_methods (pre : string) (ok : list sk -> bool) (tbl : list (string * list sk)) : bool :=
  forallb (fun kv => if prefix pre (fst kv) then ok (snd kv) else true) tbl.

(* the body is exactly  lock(); defer unlock(); rest  and rest never touches the lock again *)
Definition starts_locked (lock unlock lockfield : string) (ss : list sk) : bool :=
  negb (existsb has_other ss) &&
  match split_lock lock unlock ss with
  | Some ([], body) => negb (existsb (mentions lockfield) body)
  | _ => false
  end.

(* number of calls of functions of package unix, at any depth: call statements
   and calls inside expression texts (unix.F( ... ): conditions with an init
   clause, arguments, right-hand sides) *)
Definition ident_char (a : ascii) : bool :=
  let n := nat_of_ascii a in
  (Nat.leb 65 n && Nat.leb n 90) || (Nat.leb 97 n && Nat.leb n 122) || (Nat.leb 48 n && Nat.leb n 57) || Nat.eqb n 95.

Fixpoint after_ident (s : string) : string :=
  match s with
  | String a s' => if ident_char a then after_ident s' else s
  | EmptyString => s
  end.

Fixpoint drop_chars (n : nat) (s : string) : string :=
  match n, s with
  | S n', String _ s' => drop_chars n' s'
  | _, _ => s
  end.

Fixpoint unix_calls_in_text (s : string) : list string :=
  match s with
  | EmptyString => []
  | String _ s' =>
      (if prefix "unix." s then
         match after_ident (drop_chars 5 s) with
         | String "("%char _ => [substring 0 (String.length s - String.length (after_ident (drop_chars 5 s))) s]
         | _ => []
         end
       else []) ++ unix_calls_in_text s'
  end.

(* the unix functions a statement calls, in source order *)
Fixpoint unix_calls (s : sk) : list string :=
  (match s with
   | SCall _ c args => (if prefix "unix." c then [c] else []) ++ flat_map unix_calls_in_text args
   | SDefer c args | SGo c args => (if prefix "unix." c then [c] else []) ++ flat_map unix_calls_in_text args
   | SIf c thn els => unix_calls_in_text c ++ flat_map unix_calls thn ++ flat_map unix_calls els
   | SFor c b => unix_calls_in_text c ++ flat_map unix_calls b
   | SRange o b => unix_calls_in_text o ++ flat_map unix_calls b
   | SReturn vs => flat_map unix_calls_in_text vs
   | SAssign l r => flat_map unix_calls_in_text (l ++ r)
   | SBreak => []
   | SOther t => unix_calls_in_text t
   end)%list.

Definition count_unix (s : sk) : nat := length (unix_calls s).
Definition syscalls_in (ss : list sk) : nat := list_sum (map count_unix ss).

Fixpoint has_go (s : sk) : bool :=
  match s with
  | SGo _ _ => true
  | SIf _ thn els => existsb has_go thn || existsb has_go els
  | SFor _ b | SRange _ b => existsb has_go b
  | _ => false
  end.
