(* MemDisk (machine/disk/mem.go) as a single-lock object.

   Lock modes and critical sections mirror the code (checked per run on the
   regenerated skeletons, Oblig/O10.v):
     ReadTo/Read : d.l.RLock(); defer RUnlock(); bounds check; copy(buf, d.blocks[a][:])
     Write       : length check (before the lock); d.l.Lock(); defer Unlock(); bounds check; copy(d.blocks[a][:], v)
     Size        : no lock (len(d.blocks) never changes)
     Barrier     : no-op
   A block copy is modelled as one micro-step per byte, so torn blocks are
   expressible. *)
From Coq Require Import List ZArith Lia Bool Arith.
From GV Require Import Disk.Disk Disk.DiskProofs Conc.Lin Conc.SingleLock.
Import ListNotations.
Open Scope Z_scope.

Section MemDiskConc.
Variable bs : nat.
Variable n : Z.
Hypothesis n_nonneg : 0 <= n.

Definition in_rng (a : Z) : bool := negb (n <=? a).    (* !(a >= uint64(len(d.blocks))) *)

Definition md (o : op) : mode :=
  match o with
  | ORead _ | OReadTo _ _ => MR
  | OWrite _ v => if Nat.eqb (length v) bs then MW else MFree
  | OSize | OBarrier => MFree
  end.

Definition rd_step (a i : nat) : @mstep mem block :=
  fun s l => (s, set_nth l i (nth i (nth a s []) 0)).
Definition wr_step (a : nat) (v : block) (i : nat) : @mstep mem block :=
  fun s l => (set_nth s a (set_nth (nth a s []) i (nth i v 0)), l).

Definition prog (o : op) : list (@mstep mem block) :=
  match o with
  | ORead a => if in_rng a then map (rd_step (Z.to_nat a)) (seq 0 bs) else []
  | OReadTo a buf => if in_rng a then map (rd_step (Z.to_nat a)) (seq 0 (Nat.min (length buf) bs)) else []
  | OWrite a v => if Nat.eqb (length v) bs
                  then if in_rng a then map (wr_step (Z.to_nat a) v) (seq 0 bs) else []
                  else []
  | OSize | OBarrier => []
  end.

Definition init (o : op) : block :=
  match o with ORead _ => zeros bs | OReadTo _ buf => buf | _ => [] end.

Definition result (o : op) (l : block) : out :=
  match o with
  | ORead a | OReadTo a _ => if in_rng a then RBlock l else RRefused
  | OWrite a v => if Nat.eqb (length v) bs && in_rng a then RUnit else RRefused
  | OSize => RSize n
  | OBarrier => RUnit
  end.

Lemma reader_pure : forall o, md o = MR -> Forall pure (prog o).
Proof.
  intros o Hm. destruct o as [a|a buf|a v| |]; cbn [md prog] in *; try discriminate.
  - destruct (in_rng a); [|constructor]. apply Forall_forall. intros m Hin.
    apply in_map_iff in Hin as (i & <- & _). intros s l. reflexivity.
  - destruct (in_rng a); [|constructor]. apply Forall_forall. intros m Hin.
    apply in_map_iff in Hin as (i & <- & _). intros s l. reflexivity.
  - destruct (Nat.eqb (length v) bs); discriminate.
Qed.

Lemma free_prog : forall o, md o = MFree -> prog o = [].
Proof.
  intros o Hm. destruct o as [a|a buf|a v| |]; cbn [md prog] in *; try discriminate; try reflexivity.
  destruct (Nat.eqb (length v) bs); [discriminate|reflexivity].
Qed.

(* ------------------------------------------------------------ byte-wise copies are block copies *)
Lemma exec_app {St L} (ms1 ms2 : list (@mstep St L)) s l :
  exec (ms1 ++ ms2) s l = let '(s', l') := exec ms1 s l in exec ms2 s' l'.
Proof.
  revert s l; induction ms1 as [|m ms1 IH]; intros s l; [reflexivity|].
  cbn [app exec]. destruct (m s l) as [s' l']. apply IH.
Qed.

Lemma nth_set_nth (l : block) i j x : (i < length l)%nat ->
  nth j (set_nth l i x) 0 = if Nat.eqb j i then x else nth j l 0.
Proof.
  intros Hi. destruct (Nat.eqb_spec j i) as [->|Hne].
  - now apply nth_set_nth_eq.
  - apply nth_set_nth_neq. congruence.
Qed.

Lemma rd_exec a s k : forall l, (k <= length l)%nat ->
  exists l', exec (map (rd_step a) (seq 0 k)) s l = (s, l') /\ length l' = length l /\
             forall j, nth j l' 0 = if (j <? k)%nat then nth j (nth a s []) 0 else nth j l 0.
Proof.
  induction k as [|k IH]; intros l Hk.
  - exists l. repeat split; auto.
  - destruct (IH l ltac:(lia)) as (l1 & He & Hlen & Hnth).
    rewrite seq_S, map_app, exec_app, He. cbn [map exec rd_step Nat.add].
    exists (set_nth l1 k (nth k (nth a s []) 0)). split; [reflexivity|].
    split; [now rewrite set_nth_length|].
    intros j. rewrite nth_set_nth by lia. rewrite Hnth.
    destruct (Nat.eqb_spec j k) as [->|Hne].
    + now rewrite (proj2 (Nat.ltb_lt k (S k))) by lia.
    + destruct (Nat.ltb_spec j k), (Nat.ltb_spec j (S k)); try lia; reflexivity.
Qed.

Lemma nth_ext0 (l1 l2 : block) : length l1 = length l2 -> (forall j, nth j l1 0 = nth j l2 0) -> l1 = l2.
Proof. intros Hl Hn. apply (nth_ext l1 l2 0 0 Hl). intros j _. apply Hn. Qed.

Lemma rd_exec_full a s l : length l = bs -> length (nth a s []) = bs ->
  exec (map (rd_step a) (seq 0 bs)) s l = (s, nth a s []).
Proof.
  intros Hl Hb. destruct (rd_exec a s bs l ltac:(lia)) as (l' & He & Hlen & Hnth).
  rewrite He. f_equal. apply nth_ext0; [lia|].
  intros j. rewrite Hnth. destruct (Nat.ltb_spec j bs); [reflexivity|].
  rewrite !nth_overflow by lia. reflexivity.
Qed.

Lemma wr_exec a v s k l : (a < length s)%nat -> (k <= length (nth a s []))%nat ->
  exists b', exec (map (wr_step a v) (seq 0 k)) s l = (set_nth s a b', l) /\
             length b' = length (nth a s []) /\
             forall j, nth j b' 0 = if (j <? k)%nat then nth j v 0 else nth j (nth a s []) 0.
Proof.
  intros Ha. induction k as [|k IH]; intros Hk.
  - exists (nth a s []). split; [|split; auto].
    cbn [seq map exec]. f_equal. clear -Ha. revert a Ha.
    induction s as [|x t IHs]; intros [|a] H; cbn in *; try lia; auto. f_equal. apply IHs. lia.
  - destruct (IH ltac:(lia)) as (b1 & He & Hlen & Hnth).
    rewrite seq_S, map_app, exec_app, He. cbn [map exec wr_step Nat.add].
    assert (Hcur : nth a (set_nth s a b1) [] = b1) by (apply nth_set_nth_eq; exact Ha).
    unfold block in *. rewrite Hcur.
    exists (set_nth b1 k (nth k v 0)). split.
    + f_equal. clear -Ha. revert a Ha. induction s as [|x t IHs]; intros [|a] H; cbn in *; try lia; auto.
      f_equal. apply IHs. lia.
    + split; [rewrite set_nth_length; exact Hlen|].
      intros j. rewrite nth_set_nth by lia. rewrite Hnth.
      destruct (Nat.eqb_spec j k) as [->|Hne].
      * now rewrite (proj2 (Nat.ltb_lt k (S k))) by lia.
      * destruct (Nat.ltb_spec j k), (Nat.ltb_spec j (S k)); try lia; reflexivity.
Qed.

Lemma wr_exec_full a v s l : (a < length s)%nat -> length (nth a s []) = bs -> length v = bs ->
  exec (map (wr_step a v) (seq 0 bs)) s l = (set_nth s a v, l).
Proof.
  intros Ha Hb Hv. destruct (wr_exec a v s bs l Ha ltac:(lia)) as (b' & He & Hlen & Hnth).
  rewrite He. f_equal. f_equal. apply nth_ext0; [lia|].
  intros j. rewrite Hnth. destruct (Nat.ltb_spec j bs); [reflexivity|].
  rewrite !nth_overflow by lia. reflexivity.
Qed.

(* ------------------------------------------------------------ the sequential object is MemDisk's model *)
Definition wf_mem (s : mem) : Prop := mem_len s = n /\ Forall (fun b => length b = bs) s.

Lemma atomic_is_mem_step s o : wf_mem s -> op_ok bs o ->
  atomic prog init result o s = mem_step bs s o.
Proof.
  intros [Hlen Hall] [Ha Hbuf]. unfold atomic, in_rng.
  assert (Hblk : forall a, 0 <= a < n -> length (nth (Z.to_nat a) s []) = bs).
  { intros a Hr. apply (Forall_nth_default (fun b => length b = bs)); [exact Hall|].
    unfold mem_len, mem, block in *. lia. }
  destruct o as [a|a buf|a v| |]; cbn [prog init result mem_step addr_ok] in *; unfold in_rng.
  - rewrite Hlen. destruct (Z.leb_spec n a) as [Hge|Hlt]; cbn [negb exec]; [reflexivity|].
    rewrite rd_exec_full by (try apply zeros_length; apply Hblk; lia).
    rewrite copy_into_same_length by (rewrite zeros_length, Hblk; lia). reflexivity.
  - rewrite Hlen. destruct (Z.leb_spec n a) as [Hge|Hlt]; cbn [negb exec]; [reflexivity|].
    rewrite Hbuf, Nat.min_id.
    rewrite rd_exec_full by (try exact Hbuf; apply Hblk; lia).
    rewrite copy_into_same_length by (rewrite Hblk; lia). reflexivity.
  - destruct (Nat.eqb_spec (length v) bs) as [Hv|Hv]; cbn [negb andb exec]; [|reflexivity].
    rewrite Hlen. destruct (Z.leb_spec n a) as [Hge|Hlt]; cbn [negb exec]; [reflexivity|].
    rewrite wr_exec_full; try assumption; [|unfold mem_len, mem, block in *; lia|apply Hblk; lia].
    rewrite copy_into_same_length by (rewrite Hblk; lia). reflexivity.
  - cbn [exec]. now rewrite Hlen.
  - reflexivity.
Qed.

Lemma wf_mem_init : wf_mem (mem_init bs n).
Proof.
  split.
  - unfold mem_len, mem_init. rewrite repeat_length. lia.
  - apply Forall_forall. intros b Hb. apply repeat_spec in Hb. subst. apply zeros_length.
Qed.

Definition Rconc (s1 : mem) (s2 : regs) : Prop := wf_mem s1 /\ Rmem bs s1 s2.

Lemma conc_sim s1 s2 o : Rconc s1 s2 -> op_ok bs o ->
  snd (seq_atomic prog init result s1 o) = snd (regs_step bs s2 o) /\
  Rconc (fst (seq_atomic prog init result s1 o)) (fst (regs_step bs s2 o)).
Proof.
  intros [Hwf HR] Hok. unfold seq_atomic. rewrite atomic_is_mem_step by assumption.
  destruct (mem_sim bs s1 s2 o HR Hok) as [E HR']. split; [exact E|]. split; [|exact HR'].
  destruct HR' as (Hsz & Hall & _). split; [|exact Hall].
  rewrite <- Hsz, regs_step_size. destruct HR as (Hsz0 & _). destruct Hwf as [Hl _]. congruence.
Qed.

(* THE THEOREM for MemDisk: whatever the clients do and however the
   micro-steps interleave, the observable history is linearizable with respect
   to the register-array specification. *)
Theorem memdisk_linearizable c :
  reachable md prog init result (mem_init bs n) c ->
  (forall t o, In (HInv t o) (history (tr c)) -> op_ok bs o) ->
  linearizable (regs_step bs) (regs_init bs n) (history (tr c)).
Proof.
  intros Hreach Hok.
  eapply (linearizable_transfer (seq_atomic prog init result) (regs_step bs) Rconc (op_ok bs)).
  - intros; now apply conc_sim.
  - split; [apply wf_mem_init|apply Rmem_init; exact n_nonneg].
  - exact Hok.
  - apply (single_lock_linearizable md prog init result reader_pure free_prog). exact Hreach.
Qed.

End MemDiskConc.
