(* Single-lock objects are linearizable.

   An object whose every operation is
       acquire (mutex / RW-lock in read or write mode);  micro-steps ...;  release
   (or takes no lock at all and only returns a value that does not depend on
   the mutable state), where reader micro-steps do not modify the shared state,
   is linearizable with respect to the sequential object obtained by running
   each operation's micro-steps atomically — for every number of threads,
   every client behaviour and every interleaving of the micro-steps.

   Micro-steps make intermediate states visible: a 4096-byte block copy is 4096
   steps, so a torn read is expressible (and reachable once the lock is removed,
   see Unlocked.v). *)
From Coq Require Import List Arith Lia Bool.
From GV Require Import Conc.Lin.
Import ListNotations.

Section SingleLock.
Context {St L Op Res : Type}.

Definition mstep := St -> L -> St * L.        (* one micro-step: shared state x local buffer *)
Inductive mode := MR | MW | MFree.

Variable md : Op -> mode.
Variable prog : Op -> list mstep.
Variable init : Op -> L.
Variable result : Op -> L -> Res.

Fixpoint exec (ms : list mstep) (s : St) (l : L) : St * L :=
  match ms with
  | [] => (s, l)
  | m :: ms' => let '(s', l') := m s l in exec ms' s' l'
  end.

(* the sequential object *)
Definition atomic (o : Op) (s : St) : St * Res :=
  let '(s', l) := exec (prog o) s (init o) in (s', result o l).

Definition pure (m : mstep) : Prop := forall s l, fst (m s l) = s.
Hypothesis reader_pure : forall o, md o = MR -> Forall pure (prog o).
Hypothesis free_prog : forall o, md o = MFree -> prog o = [].

(* ------------------------------------------------------------ the concurrent system *)
Inductive tstate :=
| Idle
| Waiting (o : Op)
| Running (o : Op) (rest : list mstep) (l : L) (r : Res).   (* r: ghost, fixed at the linearization point *)

Record cfg := { st : St; writer : option tid; readers : list tid; thr : tid -> tstate;
                tr : list (@event Op Res) (* newest first *) }.

Definition init_cfg (s0 : St) : cfg :=
  {| st := s0; writer := None; readers := []; thr := fun _ => Idle; tr := [] |}.

Inductive step : cfg -> cfg -> Prop :=
| s_invoke c t o : thr c t = Idle ->
    step c {| st := st c; writer := writer c; readers := readers c;
              thr := upd (thr c) t (Waiting o); tr := EInv t o :: tr c |}
| s_acqW c t o : thr c t = Waiting o -> md o = MW -> writer c = None -> readers c = [] ->
    step c {| st := st c; writer := Some t; readers := [];
              thr := upd (thr c) t (Running o (prog o) (init o) (snd (atomic o (st c))));
              tr := ELin t o (snd (atomic o (st c))) :: tr c |}
| s_acqR c t o : thr c t = Waiting o -> md o = MR -> writer c = None ->
    step c {| st := st c; writer := None; readers := t :: readers c;
              thr := upd (thr c) t (Running o (prog o) (init o) (snd (atomic o (st c))));
              tr := ELin t o (snd (atomic o (st c))) :: tr c |}
| s_free c t o : thr c t = Waiting o -> md o = MFree ->
    step c {| st := st c; writer := writer c; readers := readers c;
              thr := upd (thr c) t (Running o [] (init o) (snd (atomic o (st c))));
              tr := ELin t o (snd (atomic o (st c))) :: tr c |}
| s_micro c t o m rest l r : thr c t = Running o (m :: rest) l r ->
    step c {| st := fst (m (st c) l); writer := writer c; readers := readers c;
              thr := upd (thr c) t (Running o rest (snd (m (st c) l)) r); tr := tr c |}
| s_release c t o l r : thr c t = Running o [] l r ->
    step c {| st := st c;
              writer := match md o with MW => None | _ => writer c end;
              readers := match md o with MR => remove Nat.eq_dec t (readers c) | _ => readers c end;
              thr := upd (thr c) t Idle; tr := EResp t (result o l) :: tr c |}.

Inductive reachable (s0 : St) : cfg -> Prop :=
| r_init : reachable s0 (init_cfg s0)
| r_step c c' : reachable s0 c -> step c c' -> reachable s0 c'.

(* the sequential object as a step function, and linearizability w.r.t. it (Lin.v) *)
Definition seq_atomic (s : St) (o : Op) : St * Res := atomic o s.
Notation wf_tr := (@wf_tr Op Res).
Notation legal := (@legal St Op Res seq_atomic).
Notation linearizable := (@linearizable St Op Res seq_atomic).

(* ------------------------------------------------------------ the invariant *)
Lemma lg_lin' s0 tau s t o r : legal s0 tau s -> r = snd (atomic o s) ->
  legal s0 (ELin t o r :: tau) (fst (atomic o s)).
Proof. exact (lg_lin seq_atomic s0 tau s t o r). Qed.

Definition agree (f : tid -> lstate) (th : tid -> tstate) : Prop :=
  forall t, match th t with
            | Idle => f t = LIdle
            | Waiting o => f t = LInv o
            | Running o _ _ r => f t = LLin o r
            end.

Definition free_done (o : Op) (rest : list mstep) (l : L) (r : Res) : Prop :=
  md o = MFree /\ rest = [] /\ result o l = r.

Definition lockinv (c : cfg) (a : St) : Prop :=
  match writer c with
  | Some w =>
      readers c = [] /\
      (exists o rest l r, thr c w = Running o rest l r /\ md o = MW /\
                          fst (exec rest (st c) l) = a /\ result o (snd (exec rest (st c) l)) = r) /\
      (forall t o rest l r, thr c t = Running o rest l r -> t <> w -> free_done o rest l r)
  | None =>
      st c = a /\
      forall t o rest l r, thr c t = Running o rest l r ->
        (md o = MR /\ In t (readers c) /\ Forall pure rest /\ result o (snd (exec rest (st c) l)) = r)
        \/ free_done o rest l r
  end.

Definition Inv (s0 : St) (c : cfg) : Prop :=
  exists f a, wf_tr (tr c) f /\ legal s0 (tr c) a /\ agree f (thr c) /\ lockinv c a.

Lemma exec_pure rest s l : Forall pure rest -> fst (exec rest s l) = s.
Proof.
  revert s l; induction rest as [|m rest IH]; intros s l H; [reflexivity|].
  inversion H as [|? ? Hm Hr]; subst. cbn [exec]. specialize (Hm s l).
  destruct (m s l) as [s' l']. cbn [fst] in Hm. subst s'. now apply IH.
Qed.

Lemma atomic_free o s : md o = MFree -> atomic o s = (s, result o (init o)).
Proof. intros H. unfold atomic. now rewrite (free_prog o H). Qed.

Lemma agree_upd f th t ls ts :
  agree f th ->
  match ts with Idle => ls = LIdle | Waiting o => ls = LInv o | Running o _ _ r => ls = LLin o r end ->
  agree (upd f t ls) (upd th t ts).
Proof.
  intros Ha Hm t'. unfold upd. destruct (Nat.eq_dec t' t); [exact Hm|apply Ha].
Qed.

Lemma Inv_init s0 : Inv s0 (init_cfg s0).
Proof.
  exists (fun _ => LIdle), s0.
  split; [constructor|]. split; [constructor|].
  split; [intros t0; reflexivity|].
  unfold lockinv; cbn [init_cfg writer st thr readers].
  split; [reflexivity|]. intros t0 o rest l r H. discriminate H.
Qed.

Theorem Inv_step s0 c c' : Inv s0 c -> step c c' -> Inv s0 c'.
Proof.
  intros (f & a & Hwf & Hlg & Hag & Hlk) Hstep.
  destruct Hstep as [c t o Ht | c t o Ht Hmd Hw Hr | c t o Ht Hmd Hw | c t o Ht Hmd
                    | c t o m rest l r Ht | c t o l r Ht].
  - (* invoke *)
    exists (upd f t (LInv o)), a. cbn [tr thr].
    pose proof (Hag t) as Hft. rewrite Ht in Hft.
    split; [constructor; assumption|]. split; [constructor; assumption|].
    split; [apply agree_upd; auto|].
    unfold lockinv in *; cbn [writer readers thr st] in *.
    destruct (writer c) as [w|].
    + destruct Hlk as (Hr & (o' & rest & l & r & Hw & Hmw & Ha & Hres) & Hoth).
      split; [exact Hr|]. split.
      * assert (w <> t) by (intros ->; congruence).
        exists o', rest, l, r. rewrite upd_other by assumption. auto.
      * intros t' o'' rest' l' r' H Hne. destruct (Nat.eq_dec t' t) as [->|Hn].
        -- rewrite upd_same in H. discriminate.
        -- rewrite upd_other in H by assumption. eauto.
    + destruct Hlk as [Hst Hrun]. split; [exact Hst|].
      intros t' o'' rest' l' r' H. destruct (Nat.eq_dec t' t) as [->|Hn].
      * rewrite upd_same in H. discriminate.
      * rewrite upd_other in H by assumption. eauto.
  - (* acquire write *)
    pose proof (Hag t) as Hft. rewrite Ht in Hft.
    unfold lockinv in Hlk. rewrite Hw in Hlk. destruct Hlk as [Hst Hrun]. subst a.
    exists (upd f t (LLin o (snd (atomic o (st c))))), (fst (atomic o (st c))). cbn [tr thr].
    split; [constructor; assumption|]. split; [apply lg_lin'; auto|].
    split; [apply agree_upd; auto|].
    unfold lockinv; cbn [writer readers thr st].
    split; [reflexivity|]. split.
    + exists o, (prog o), (init o), (snd (atomic o (st c))). rewrite upd_same.
      repeat split; auto; unfold atomic; destruct (exec (prog o) (st c) (init o)); reflexivity.
    + intros t' o' rest' l' r' H Hne. rewrite upd_other in H by assumption.
      destruct (Hrun _ _ _ _ _ H) as [(_ & Hin & _)|Hfree]; [|exact Hfree].
      rewrite Hr in Hin. destruct Hin.
  - (* acquire read *)
    pose proof (Hag t) as Hft. rewrite Ht in Hft.
    unfold lockinv in Hlk. rewrite Hw in Hlk. destruct Hlk as [Hst Hrun]. subst a.
    assert (Hat : atomic o (st c) = (st c, snd (atomic o (st c)))).
    { unfold atomic. pose proof (exec_pure (prog o) (st c) (init o) (reader_pure o Hmd)) as Hp.
      destruct (exec (prog o) (st c) (init o)) as [s' l']. cbn [fst snd] in *. now subst. }
    exists (upd f t (LLin o (snd (atomic o (st c))))), (st c). cbn [tr thr].
    split; [constructor; assumption|].
    split. { replace (st c) with (fst (atomic o (st c))) at 2 by (rewrite Hat; reflexivity). apply lg_lin'; auto. }
    split; [apply agree_upd; auto|].
    unfold lockinv; cbn [writer readers thr st].
    split; [reflexivity|].
    intros t' o' rest' l' r' H. destruct (Nat.eq_dec t' t) as [->|Hn].
    + rewrite upd_same in H. injection H as <- <- <- <-. left.
      repeat split; auto; [now left|].
      unfold atomic. destruct (exec (prog o) (st c) (init o)); reflexivity.
    + rewrite upd_other in H by assumption.
      destruct (Hrun _ _ _ _ _ H) as [(Hm & Hin & Hp & Hres)|Hfree]; [left|right; exact Hfree].
      repeat split; auto. now right.
  - (* lock-free operation: linearizes at once *)
    pose proof (Hag t) as Hft. rewrite Ht in Hft.
    pose proof (atomic_free o a Hmd) as Ha. pose proof (atomic_free o (st c) Hmd) as Hc.
    exists (upd f t (LLin o (snd (atomic o (st c))))), a. cbn [tr thr].
    split; [constructor; assumption|].
    split. { assert (Hr' : snd (atomic o (st c)) = snd (atomic o a)) by (rewrite Ha, Hc; reflexivity).
             pose proof (lg_lin' s0 (tr c) a t o _ Hlg Hr') as Hl. replace (fst (atomic o a)) with a in Hl by (rewrite Ha; reflexivity). exact Hl. }
    split; [apply agree_upd; auto|].
    assert (Hfd : free_done o [] (init o) (snd (atomic o (st c)))).
    { unfold free_done. rewrite Hc. auto. }
    unfold lockinv in *; cbn [writer readers thr st] in *.
    destruct (writer c) as [w|].
    + destruct Hlk as (Hr & (o' & rest & l & r & Hw & Hmw & Hab & Hres) & Hoth).
      split; [exact Hr|]. split.
      * assert (w <> t) by (intros ->; congruence).
        exists o', rest, l, r. rewrite upd_other by assumption. auto.
      * intros t' o'' rest' l' r' H Hne. destruct (Nat.eq_dec t' t) as [->|Hn].
        -- rewrite upd_same in H. injection H as <- <- <- <-. exact Hfd.
        -- rewrite upd_other in H by assumption. eauto.
    + destruct Hlk as [Hst Hrun]. split; [exact Hst|].
      intros t' o'' rest' l' r' H. destruct (Nat.eq_dec t' t) as [->|Hn].
      * rewrite upd_same in H. injection H as <- <- <- <-. right. exact Hfd.
      * rewrite upd_other in H by assumption. eauto.
  - (* micro-step *)
    exists f, a. cbn [tr thr].
    split; [assumption|]. split; [assumption|].
    split. { intros t'. unfold upd. destruct (Nat.eq_dec t' t) as [->|]; [|apply Hag].
             pose proof (Hag t) as H. rewrite Ht in H. exact H. }
    unfold lockinv in *; cbn [writer readers thr st] in *.
    destruct (writer c) as [w|] eqn:Hw.
    + destruct Hlk as (Hr & (o' & rest' & l' & r' & Hwt & Hmw & Hab & Hres) & Hoth).
      destruct (Nat.eq_dec t w) as [->|Hne].
      * rewrite Ht in Hwt. injection Hwt as <- <- <- <-.
        split; [exact Hr|]. split.
        -- exists o, rest, (snd (m (st c) l)), r. rewrite upd_same.
           cbn [exec] in Hab, Hres. destruct (m (st c) l) as [s1 l1]. cbn [fst snd]. auto.
        -- intros t' o'' rest'' l'' r'' H Hn. rewrite upd_other in H by assumption. eauto.
      * (* a thread other than the writer cannot have a micro-step left *)
        destruct (Hoth _ _ _ _ _ Ht Hne) as (_ & Hnil & _). discriminate.
    + destruct Hlk as [Hst Hrun].
      destruct (Hrun _ _ _ _ _ Ht) as [(Hm & Hin & Hp & Hres)|(_ & Hnil & _)]; [|discriminate].
      apply Forall_cons_iff in Hp as [Hpm Hprest].
      assert (Hsame : fst (m (st c) l) = st c) by apply Hpm.
      split; [congruence|].
      intros t' o'' rest'' l'' r'' H. destruct (Nat.eq_dec t' t) as [->|Hn].
      * rewrite upd_same in H. injection H as <- <- <- <-. left.
        repeat split; auto. rewrite Hsame.
        cbn [exec] in Hres. destruct (m (st c) l) as [s1 l1]. cbn [fst snd] in *. now subst s1.
      * rewrite upd_other in H by assumption. rewrite Hsame. eauto.
  - (* release *)
    pose proof (Hag t) as Hft. rewrite Ht in Hft.
    assert (Hres : result o l = r /\
                   (forall (P : Prop), (md o = MW -> writer c = Some t -> P) ->
                                       (md o = MR -> writer c = None -> P) ->
                                       (md o = MFree -> P) -> P)).
    { unfold lockinv in Hlk. destruct (writer c) as [w|] eqn:Hw.
      - destruct Hlk as (Hr & (o' & rest' & l' & r' & Hwt & Hmw & Hab & Hres) & Hoth).
        destruct (Nat.eq_dec t w) as [->|Hne].
        + rewrite Ht in Hwt. injection Hwt as <- <- <- <-. cbn [exec snd] in Hres.
          split; [exact Hres|]. intros P H1 _ _. now apply H1.
        + destruct (Hoth _ _ _ _ _ Ht Hne) as (Hm & _ & Hr'). split; [exact Hr'|]. intros P _ _ H3. now apply H3.
      - destruct Hlk as [Hst Hrun].
        destruct (Hrun _ _ _ _ _ Ht) as [(Hm & Hin & Hp & Hr')|(Hm & _ & Hr')].
        + cbn [exec snd] in Hr'. split; [exact Hr'|]. intros P _ H2 _. now apply H2.
        + split; [exact Hr'|]. intros P _ _ H3. now apply H3. }
    destruct Hres as [Hres Hcase]. rewrite Hres.
    exists (upd f t LIdle), a. cbn [tr thr].
    split; [econstructor; eassumption|]. split; [constructor; assumption|].
    split; [apply agree_upd; auto|].
    apply Hcase; clear Hcase.
    + (* the writer releases *)
      intros Hmd Hw. unfold lockinv in *; cbn [writer readers thr st] in *. rewrite Hmd. rewrite Hw in Hlk.
      destruct Hlk as (Hr & (o' & rest' & l' & r' & Hwt & Hmw & Hab & Hres') & Hoth).
      rewrite Ht in Hwt. injection Hwt as <- <- <- <-. cbn [exec fst] in Hab.
      split; [exact Hab|].
      intros t' o'' rest'' l'' r'' H. destruct (Nat.eq_dec t' t) as [->|Hn].
      * rewrite upd_same in H. discriminate.
      * rewrite upd_other in H by assumption. right. eauto.
    + (* a reader releases *)
      intros Hmd Hw. unfold lockinv in *; cbn [writer readers thr st] in *. rewrite Hmd. rewrite Hw in *.
      destruct Hlk as [Hst Hrun]. split; [exact Hst|].
      intros t' o'' rest'' l'' r'' H. destruct (Nat.eq_dec t' t) as [->|Hn].
      * rewrite upd_same in H. discriminate.
      * rewrite upd_other in H by assumption.
        destruct (Hrun _ _ _ _ _ H) as [(Hm & Hin & Hp & Hr')|Hfree]; [left|right; exact Hfree].
        repeat split; auto. apply in_in_remove; auto.
    + (* a lock-free operation returns *)
      intros Hmd. unfold lockinv in *; cbn [writer readers thr st] in *. rewrite Hmd.
      destruct (writer c) as [w|] eqn:Hw.
      * destruct Hlk as (Hr & (o' & rest' & l' & r' & Hwt & Hmw & Hab & Hres') & Hoth).
        assert (w <> t) by (intros ->; rewrite Ht in Hwt; injection Hwt as <- _ _ _; congruence).
        split; [exact Hr|]. split.
        -- exists o', rest', l', r'. rewrite upd_other by assumption. auto.
        -- intros t' o'' rest'' l'' r'' H' Hne. destruct (Nat.eq_dec t' t) as [->|Hn].
           ++ rewrite upd_same in H'. discriminate.
           ++ rewrite upd_other in H' by assumption. eauto.
      * destruct Hlk as [Hst Hrun]. split; [exact Hst|].
        intros t' o'' rest'' l'' r'' H'. destruct (Nat.eq_dec t' t) as [->|Hn].
        -- rewrite upd_same in H'. discriminate.
        -- rewrite upd_other in H' by assumption. eauto.
Qed.

Theorem reachable_Inv s0 c : reachable s0 c -> Inv s0 c.
Proof. induction 1; [apply Inv_init|eapply Inv_step; eauto]. Qed.

(* THE THEOREM: every reachable history is linearizable. *)
Theorem single_lock_linearizable s0 c : reachable s0 c -> linearizable s0 (history (tr c)).
Proof.
  intros H. destruct (reachable_Inv s0 c H) as (f & a & Hwf & Hlg & _).
  exists (tr c), f, a. auto.
Qed.

End SingleLock.
