(* Per-run obligations of C11 over the regenerated skeletons of machine/disk/file.go:
   the hypotheses of the fault theorems hold for the code as it is now. *)
From Coq Require Import String List Bool.
From GV Require Import Base.Skel Base.Tables Disk.Faults.
From GVGen Require Import GenSkeletons.
Import ListNotations.
Open Scope string_scope.

(* every system call of these methods is followed by an err check that panics
   (or, in NewFileDisk, returns the error) *)
Example O11_readto_surfaces : surfaces sk_disk_FileDisk_ReadTo = true.
Proof. vm_compute. reflexivity. Qed.
Example O11_read_surfaces : surfaces sk_disk_FileDisk_Read = true.
Proof. vm_compute. reflexivity. Qed.
Example O11_write_surfaces : surfaces sk_disk_FileDisk_Write = true.
Proof. vm_compute. reflexivity. Qed.
Example O11_barrier_surfaces : surfaces sk_disk_FileDisk_Barrier = true.
Proof. vm_compute. reflexivity. Qed.
Example O11_open_surfaces : surfaces sk_disk_NewFileDisk = true.
Proof. vm_compute. reflexivity. Qed.

(* Barrier starts by fsync-ing the disk's descriptor *)
Definition starts_with_syscall (c : string) (args : list string) (ss : list sk) : bool :=
  match ss with
  | SCall _ c' args' :: _ => String.eqb c c' && (if list_eq_dec string_dec args args' then true else false)
  | _ => false
  end.
Example O11_barrier_fsyncs_fd : starts_with_syscall "unix.Fsync" ["d.fd"] sk_disk_FileDisk_Barrier = true.
Proof. vm_compute. reflexivity. Qed.

(* Write and ReadTo go to the kernel through pwrite/pread on the disk's
   descriptor with the caller's buffer (nothing is cached in the process) *)
Definition has_syscall_on (c fd buf : string) (ss : list sk) : bool :=
  existsb (fun s => match s with
                    | SCall _ c' (a1 :: a2 :: _) => String.eqb c c' && String.eqb a1 fd && String.eqb a2 buf
                    | _ => false end) ss.
Example O11_write_pwrites : has_syscall_on "unix.Pwrite" "d.fd" "v" sk_disk_FileDisk_Write = true.
Proof. vm_compute. reflexivity. Qed.
Example O11_readto_preads : has_syscall_on "unix.Pread" "d.fd" "buf" sk_disk_FileDisk_ReadTo = true.
Proof. vm_compute. reflexivity. Qed.
