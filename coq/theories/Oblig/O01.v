(* Per-run obligations O01: the statement and expression translation and the printer MiniGo.v mirrors.
   The expected texts below were frozen from the source the models in this
   development were written against (bin/mkoblig.py); coq/gen is regenerated
   from /repo on every run and these Examples are re-checked by the kernel. *)
From Coq Require Import String List Bool.
From GV Require Import Base.Tables.
From GVGen Require Import GenBodies GenInventory GenTables.
Import ListNotations.
Open Scope string_scope.

Example O01_body_goose_Ctx_stmts :
  has_body func_bodies "goose.Ctx.stmts"
    "func(ss []ast.Stmt, usage ExprValUsage) coq.BlockExpr"
    "{ c := &cursor{ss} var bindings []coq.Binding var finalized bool for c.HasNext() { s := c.Next() switch s := s.(type) { case *ast.IfStmt: bindings = append(bindings, ctx.ifStmt(s, c.Remainder(), usage)) finalized = true default: if c.HasNext() { binding := ctx.stmt(s) if ctx.scopedStmtShadows(s) { binding = coq.NewAnon(coq.ParenExpr{X: binding.Expr}) } bindings = append(bindings, binding) } else { binding, fin := ctx.stmtInBlock(s, usage) bindings = append(bindings, binding) finalized = fin } } } if !finalized { switch usage { case ExprValReturned: bindings = append(bindings, coq.NewAnon(coq.ReturnExpr{Value: coq.Tt})) case ExprValLoop: bindings = append(bindings, coq.NewAnon(coq.LoopContinue)) case ExprValLocal: if len(bindings) == 0 { bindings = append(bindings, coq.NewAnon(coq.ReturnExpr{Value: coq.Tt})) } default: panic(""bad ExprValUsage"") } } return coq.BlockExpr{Bindings: bindings} }" = true.
Proof. vm_compute. reflexivity. Qed.

Example O01_body_goose_Ctx_stmtsEndWithReturn :
  has_body func_bodies "goose.Ctx.stmtsEndWithReturn"
    "func(ss []ast.Stmt) bool"
    "{ if len(ss) == 0 { return false } switch s := ss[len(ss)-1].(type) { case *ast.ReturnStmt, *ast.BranchStmt: return true case *ast.IfStmt: left := ctx.endsWithReturn(s.Body) right := ctx.endsWithReturn(s.Else) return left && right } return false }" = true.
Proof. vm_compute. reflexivity. Qed.

Example O01_body_goose_Ctx_endsWithReturn :
  has_body func_bodies "goose.Ctx.endsWithReturn"
    "func(s ast.Stmt) bool"
    "{ if s == nil { return false } switch s := s.(type) { case *ast.BlockStmt: return ctx.stmtsEndWithReturn(s.List) default: return ctx.stmtsEndWithReturn([]ast.Stmt{s}) } }" = true.
Proof. vm_compute. reflexivity. Qed.

Example O01_body_goose_Ctx_ifStmt :
  has_body func_bodies "goose.Ctx.ifStmt"
    "func(s *ast.IfStmt, remainder []ast.Stmt, usage ExprValUsage) coq.Binding"
    "{ if s.Init != nil { ctx.unsupported(s.Init, ""if statement initializations"") return coq.Binding{} } condExpr := ctx.expr(s.Cond) ife := coq.IfExpr{ Cond: condExpr, } var Else = &ast.BlockStmt{List: []ast.Stmt{}} if s.Else != nil { switch s := s.Else.(type) { case *ast.BlockStmt: Else = s case *ast.IfStmt: Else.List = []ast.Stmt{s} default: panic(""if statement with unexpected kind of else branch"") } } if len(remainder) == 0 { ife.Then = ctx.blockStmt(s.Body, usage) ife.Else = ctx.blockStmt(Else, usage) return coq.NewAnon(ife) } if ctx.endsWithReturn(s.Body) { ife.Then = ctx.blockStmt(s.Body, usage) if len(Else.List) > 0 { ctx.futureWork(s.Else, ""early return in if with an else branch"") return coq.Binding{} } ife.Else = ctx.stmts(remainder, usage) return coq.NewAnon(ife) } ife.Then = ctx.blockStmt(s.Body, ExprValLocal) ife.Else = ctx.blockStmt(Else, ExprValLocal) tailExpr := ctx.stmts(remainder, usage) bindings := append([]coq.Binding{coq.NewAnon(ife)}, tailExpr.Bindings...) return coq.NewAnon(coq.BlockExpr{Bindings: bindings}) }" = true.
Proof. vm_compute. reflexivity. Qed.

Example O01_body_goose_Ctx_stmtInBlock :
  has_body func_bodies "goose.Ctx.stmtInBlock"
    "func(s ast.Stmt, usage ExprValUsage) (coq.Binding, bool)"
    "{ switch usage { case ExprValReturned: s, ok := s.(*ast.ReturnStmt) if ok { return coq.NewAnon(ctx.returnExpr(s.Results)), true } case ExprValLoop: s, ok := s.(*ast.BranchStmt) if ok { return coq.NewAnon(ctx.branchStmt(s)), true } case ExprValLocal: } switch s := s.(type) { case *ast.IfStmt: return ctx.ifStmt(s, []ast.Stmt{}, usage), true case *ast.BlockStmt: return coq.NewAnon(ctx.blockStmt(s, usage)), true } binding := coq.Binding{} switch s := s.(type) { case *ast.ReturnStmt: ctx.futureWork(s, ""return in unsupported position"") case *ast.BranchStmt: ctx.futureWork(s, ""break/continue in unsupported position"") case *ast.GoStmt: binding = coq.NewAnon(ctx.goStmt(s)) case *ast.ExprStmt: binding = coq.NewAnon(ctx.expr(s.X)) case *ast.AssignStmt: binding = ctx.assignStmt(s) case *ast.DeclStmt: binding = ctx.varDeclStmt(s) case *ast.IncDecStmt: binding = ctx.incDecStmt(s) case *ast.ForStmt: binding = coq.NewAnon(ctx.forStmt(s)) case *ast.RangeStmt: binding = coq.NewAnon(ctx.rangeStmt(s)) case *ast.SwitchStmt: ctx.todo(s, ""check for switch statement"") case *ast.TypeSwitchStmt: ctx.todo(s, ""check for type switch statement"") case *ast.SelectStmt: ctx.unsupported(s, ""select statement"") default: ctx.unsupported(s, ""statement"") } switch usage { case ExprValLocal: return binding, true default: return binding, false } }" = true.
Proof. vm_compute. reflexivity. Qed.

Example O01_body_goose_Ctx_stmt :
  has_body func_bodies "goose.Ctx.stmt"
    "func(s ast.Stmt) coq.Binding"
    "{ binding, finalized := ctx.stmtInBlock(s, ExprValLocal) if !finalized { panic(""ExprValLocal usage should always be finalized"") } return binding }" = true.
Proof. vm_compute. reflexivity. Qed.

Example O01_body_goose_Ctx_blockStmt :
  has_body func_bodies "goose.Ctx.blockStmt"
    "func(s *ast.BlockStmt, usage ExprValUsage) coq.BlockExpr"
    "{ return ctx.stmts(s.List, usage) }" = true.
Proof. vm_compute. reflexivity. Qed.

Example O01_body_goose_Ctx_scopedStmtShadows :
  has_body func_bodies "goose.Ctx.scopedStmtShadows"
    "func(s ast.Stmt) bool"
    "{ switch s.(type) { case *ast.BlockStmt, *ast.ForStmt: default: return false } shadows := false ast.Inspect(s, func(n ast.Node) bool { id, ok := n.(*ast.Ident) if !ok || shadows { return !shadows } obj, ok := ctx.info.Defs[id].(*types.Var) if !ok || obj.Parent() == nil { return true } _, outer := obj.Parent().LookupParent(id.Name, s.Pos()) if v, ok := outer.(*types.Var); ok && v.Pkg() != nil && v.Parent() != v.Pkg().Scope() { shadows = true } if _, ok := outer.(*types.Func); ok { shadows = true } return true }) return shadows }" = true.
Proof. vm_compute. reflexivity. Qed.

Example O01_body_goose_Ctx_forStmt :
  has_body func_bodies "goose.Ctx.forStmt"
    "func(s *ast.ForStmt) coq.ForLoopExpr"
    "{ var init = coq.NewAnon(coq.Skip) var ident *ast.Ident if s.Init != nil { ident, _ = ctx.loopVar(s.Init) ctx.setPtrWrapped(ident) init = ctx.stmt(s.Init) } var cond coq.Expr = coq.True if s.Cond != nil { cond = ctx.expr(s.Cond) } post := coq.Skip if s.Post != nil { postBlock := ctx.stmt(s.Post) if len(postBlock.Names) > 0 { ctx.unsupported(s.Post, ""post cannot bind names"") } post = postBlock.Expr } body := ctx.blockStmt(s.Body, ExprValLoop) return coq.ForLoopExpr{ Init: init, Cond: cond, Post: post, Body: body, } }" = true.
Proof. vm_compute. reflexivity. Qed.

Example O01_body_goose_Ctx_loopVar :
  has_body func_bodies "goose.Ctx.loopVar"
    "func(s ast.Stmt) (ident *ast.Ident, init coq.Expr)"
    "{ initAssign, ok := s.(*ast.AssignStmt) if !ok || len(initAssign.Lhs) > 1 || len(initAssign.Rhs) > 1 || initAssign.Tok != token.DEFINE { ctx.unsupported(s, ""loop initialization must be a single assignment"") return nil, nil } lhs, ok := initAssign.Lhs[0].(*ast.Ident) if !ok { ctx.nope(s, ""initialization must define an identifier"") } rhs := initAssign.Rhs[0] return lhs, ctx.expr(rhs) }" = true.
Proof. vm_compute. reflexivity. Qed.

Example O01_body_goose_Ctx_branchStmt :
  has_body func_bodies "goose.Ctx.branchStmt"
    "func(s *ast.BranchStmt) coq.Expr"
    "{ if s.Tok == token.CONTINUE { return coq.LoopContinue } if s.Tok == token.BREAK { return coq.LoopBreak } ctx.noExample(s, ""unexpected control flow %v in loop"", s.Tok) return nil }" = true.
Proof. vm_compute. reflexivity. Qed.

Example O01_body_goose_Ctx_rangeStmt :
  has_body func_bodies "goose.Ctx.rangeStmt"
    "func(s *ast.RangeStmt) coq.Expr"
    "{ switch ctx.typeOf(s.X).Underlying().(type) { case *types.Map: return ctx.mapRangeStmt(s) case *types.Slice: return ctx.sliceRangeStmt(s) default: ctx.unsupported(s, ""range over %v (only maps and slices are supported)"", ctx.typeOf(s.X)) return nil } }" = true.
Proof. vm_compute. reflexivity. Qed.

Example O01_body_goose_Ctx_sliceRangeStmt :
  has_body func_bodies "goose.Ctx.sliceRangeStmt"
    "func(s *ast.RangeStmt) coq.Expr"
    "{ key := getIdentOrNil(s.Key) val := getIdentOrNil(s.Value) return coq.SliceLoopExpr{ Key: ctx.identBinder(key), Val: ctx.identBinder(val), Slice: ctx.expr(s.X), Ty: ctx.coqTypeOfType(s.X, sliceElem(ctx.typeOf(s.X).Underlying())), Body: ctx.blockStmt(s.Body, ExprValLocal), } }" = true.
Proof. vm_compute. reflexivity. Qed.

Example O01_body_goose_Ctx_mapRangeStmt :
  has_body func_bodies "goose.Ctx.mapRangeStmt"
    "func(s *ast.RangeStmt) coq.Expr"
    "{ key, ok := getIdentOrAnonymous(s.Key) if !ok { ctx.nope(s.Key, ""range with non-ident key"") return nil } val, ok := getIdentOrAnonymous(s.Value) if !ok { ctx.nope(s.Value, ""range with non-ident value"") return nil } return coq.MapIterExpr{ KeyIdent: key, ValueIdent: val, Map: ctx.expr(s.X), Body: ctx.blockStmt(s.Body, ExprValLocal), } }" = true.
Proof. vm_compute. reflexivity. Qed.

Example O01_body_goose_Ctx_defineStmt :
  has_body func_bodies "goose.Ctx.defineStmt"
    "func(s *ast.AssignStmt) coq.Binding"
    "{ if len(s.Rhs) > 1 { ctx.futureWork(s, ""multiple defines (split them up)"") } rhs := s.Rhs[0] var idents []*ast.Ident for _, lhsExpr := range s.Lhs { if ident, ok := lhsExpr.(*ast.Ident); ok { idents = append(idents, ident) } else { ctx.nope(lhsExpr, ""defining a non-identifier"") } } if len(idents) > 4 { ctx.unsupported(s, ""destructuring more than 4 return values"") } var names []string for _, ident := range idents { names = append(names, ident.Name) } if len(idents) == 1 && ctx.isPtrWrapped(idents[0]) { return coq.Binding{Names: names, Expr: ctx.referenceTo(rhs)} } else { return coq.Binding{Names: names, Expr: ctx.exprSpecial(rhs, len(idents) == 2)} } }" = true.
Proof. vm_compute. reflexivity. Qed.

Example O01_body_goose_Ctx_varSpec :
  has_body func_bodies "goose.Ctx.varSpec"
    "func(s *ast.ValueSpec) coq.Binding"
    "{ if len(s.Names) > 1 { ctx.unsupported(s, ""multiple declarations in one block"") } lhs := s.Names[0] ctx.setPtrWrapped(lhs) var rhs coq.Expr if len(s.Values) == 0 { ty := ctx.typeOf(lhs) rhs = coq.NewCallExpr(coq.GallinaIdent(""ref""), coq.NewCallExpr(coq.GallinaIdent(""zero_val""), ctx.coqTypeOfType(s, ty))) } else { rhs = ctx.referenceTo(s.Values[0]) } return coq.Binding{ Names: []string{lhs.Name}, Expr: rhs, } }" = true.
Proof. vm_compute. reflexivity. Qed.

Example O01_body_goose_Ctx_varDeclStmt :
  has_body func_bodies "goose.Ctx.varDeclStmt"
    "func(s *ast.DeclStmt) coq.Binding"
    "{ decl, ok := s.Decl.(*ast.GenDecl) if !ok { ctx.noExample(s, ""declaration that is not a GenDecl"") } if decl.Tok != token.VAR { ctx.unsupported(s, ""non-var declaration for %v"", decl.Tok) } if len(decl.Specs) > 1 { ctx.unsupported(s, ""multiple declarations in one var statement"") } return ctx.varSpec(decl.Specs[0].(*ast.ValueSpec)) }" = true.
Proof. vm_compute. reflexivity. Qed.

Example O01_body_goose_Ctx_referenceTo :
  has_body func_bodies "goose.Ctx.referenceTo"
    "func(rhs ast.Expr) coq.Expr"
    "{ return coq.RefExpr{ X: ctx.expr(rhs), Ty: ctx.coqTypeOfType(rhs, ctx.typeOf(rhs)), } }" = true.
Proof. vm_compute. reflexivity. Qed.

Example O01_body_goose_Ctx_assignStmt :
  has_body func_bodies "goose.Ctx.assignStmt"
    "func(s *ast.AssignStmt) coq.Binding"
    "{ if s.Tok == token.DEFINE { return ctx.defineStmt(s) } if len(s.Lhs) > 1 { return ctx.multipleAssignStmt(s) } lhs := s.Lhs[0] rhs := ctx.expr(s.Rhs[0]) assignOps := map[token.Token]coq.BinOp{ token.ADD_ASSIGN: coq.OpPlus, token.SUB_ASSIGN: coq.OpMinus, token.OR_ASSIGN: coq.OpOr, token.AND_ASSIGN: coq.OpAnd, token.XOR_ASSIGN: coq.OpXor, } if op, ok := assignOps[s.Tok]; ok { rhs = coq.BinaryExpr{ X: ctx.expr(lhs), Op: op, Y: rhs, } } else if s.Tok != token.ASSIGN { ctx.unsupported(s, ""%v assignment"", s.Tok) } return ctx.assignFromTo(s, lhs, rhs) }" = true.
Proof. vm_compute. reflexivity. Qed.

Example O01_body_goose_Ctx_assignFromTo :
  has_body func_bodies "goose.Ctx.assignFromTo"
    "func(s ast.Node, lhs ast.Expr, rhs coq.Expr) coq.Binding"
    "{ switch lhs := lhs.(type) { case *ast.Ident: if lhs.Name == ""_"" { return coq.NewAnon(rhs) } if ctx.isPtrWrapped(lhs) { return ctx.pointerAssign(lhs, rhs) } ctx.unsupported(s, ""variable %s is not assignable\n\t(declare it with 'var' to pointer-wrap in GooseLang and support re-assignment)"", lhs.Name) case *ast.IndexExpr: targetTy := ctx.typeOf(lhs.X) switch targetTy := targetTy.(type) { case *types.Slice: value := rhs return coq.NewAnon(coq.NewCallExpr( coq.GallinaIdent(""SliceSet""), ctx.coqTypeOfType(lhs, targetTy.Elem()), ctx.expr(lhs.X), ctx.expr(lhs.Index), value)) case *types.Map: value := rhs return coq.NewAnon(coq.NewCallExpr( coq.GallinaIdent(""MapInsert""), ctx.expr(lhs.X), ctx.expr(lhs.Index), value)) default: ctx.unsupported(s, ""index update to unexpected target of type %v"", targetTy) } case *ast.StarExpr: info, ok := ctx.getStructInfo(ctx.typeOf(lhs.X)) if ok && info.throughPointer { ctx.dep.addDep(info.name) return coq.NewAnon(coq.NewCallExpr(coq.GallinaIdent(""struct.store""), coq.StructDesc(info.name), ctx.expr(lhs.X), rhs)) } dstPtrTy, ok := ctx.typeOf(lhs.X).Underlying().(*types.Pointer) if !ok { ctx.unsupported(s, ""could not identify element type of assignment through pointer"") } return coq.NewAnon(coq.StoreStmt{ Dst: ctx.expr(lhs.X), Ty: ctx.coqTypeOfType(s, dstPtrTy.Elem()), X: rhs, }) case *ast.SelectorExpr: ty := ctx.typeOf(lhs.X) info, ok := ctx.getStructInfo(ty) var structExpr coq.Expr if info.throughPointer { structExpr = ctx.expr(lhs.X) } else { if x, isIdent := lhs.X.(*ast.Ident); isIdent && ok && !ctx.isPtrWrapped(x) { ctx.unsupported(s, ""variable %s is not assignable\n\t(declare it with 'var' to pointer-wrap in GooseLang and support re-assignment)"", x.Name) } structExpr = ctx.refExpr(lhs.X) } if ok { fieldName := lhs.Sel.Name ctx.dep.addDep(info.name) return coq.NewAnon(coq.NewCallExpr(coq.GallinaIdent(""struct.storeF""), coq.StructDesc(info.name), coq.GallinaString(fieldName), structExpr, rhs)) } ctx.unsupported(s, ""assigning to field of non-struct type %v"", ty) default: ctx.unsupported(s, ""assigning to complex expression"") } return coq.Binding{} }" = true.
Proof. vm_compute. reflexivity. Qed.

Example O01_body_goose_Ctx_pointerAssign :
  has_body func_bodies "goose.Ctx.pointerAssign"
    "func(dst *ast.Ident, x coq.Expr) coq.Binding"
    "{ ty := ctx.typeOf(dst) return coq.NewAnon(coq.StoreStmt{ Dst: coq.IdentExpr(dst.Name), X: x, Ty: ctx.coqTypeOfType(dst, ty), }) }" = true.
Proof. vm_compute. reflexivity. Qed.

Example O01_body_goose_Ctx_multipleAssignStmt :
  has_body func_bodies "goose.Ctx.multipleAssignStmt"
    "func(s *ast.AssignStmt) coq.Binding"
    "{ if len(s.Rhs) > 1 { ctx.unsupported(s, ""multiple assignments on right hand side"") } rhs := ctx.exprSpecial(s.Rhs[0], len(s.Lhs) == 2) if s.Tok != token.ASSIGN { ctx.unsupported(s, ""%v multiple assignment"", s.Tok) } if len(s.Lhs) > 4 { ctx.unsupported(s, ""assigning more than 4 return values"") } names := make([]string, len(s.Lhs)) for i := 0; i < len(names); i += 1 { names[i] = fmt.Sprintf(""%d_ret"", i) } multipleRetBinding := coq.Binding{Names: names, Expr: rhs} coqStmts := make([]coq.Binding, len(s.Lhs)+1) coqStmts[0] = multipleRetBinding for i, name := range names { coqStmts[i+1] = ctx.assignFromTo(s, s.Lhs[i], coq.IdentExpr(name)) } return coq.Binding{Names: make([]string, 0), Expr: coq.BlockExpr{Bindings: coqStmts}} }" = true.
Proof. vm_compute. reflexivity. Qed.

Example O01_body_goose_Ctx_incDecStmt :
  has_body func_bodies "goose.Ctx.incDecStmt"
    "func(stmt *ast.IncDecStmt) coq.Binding"
    "{ ident := getIdentOrNil(stmt.X) if ident == nil { ctx.todo(stmt, ""cannot inc/dec non-var"") return coq.Binding{} } if !ctx.isPtrWrapped(ident) { ctx.todo(stmt, ""can only inc/dec pointer-wrapped variables"") } op := coq.OpPlus if stmt.Tok == token.DEC { op = coq.OpMinus } return ctx.pointerAssign(ident, coq.BinaryExpr{ X: ctx.expr(stmt.X), Op: op, Y: coq.IntLiteral{Value: 1}, }) }" = true.
Proof. vm_compute. reflexivity. Qed.

Example O01_body_goose_Ctx_refExpr :
  has_body func_bodies "goose.Ctx.refExpr"
    "func(s ast.Expr) coq.Expr"
    "{ switch s := s.(type) { case *ast.Ident: return coq.IdentExpr(s.Name) case *ast.SelectorExpr: ty := ctx.typeOf(s.X) info, ok := ctx.getStructInfo(ty) if !ok { ctx.unsupported(s, ""reference to selector from non-struct type %v"", ty) } fieldName := s.Sel.Name var structExpr coq.Expr if info.throughPointer { structExpr = ctx.expr(s.X) } else { structExpr = ctx.refExpr(s.X) } ctx.dep.addDep(info.name) return coq.NewCallExpr(coq.GallinaIdent(""struct.fieldRef""), coq.StructDesc(info.name), coq.GallinaString(fieldName), structExpr) default: ctx.futureWork(s, ""reference to other types of expressions"") return nil } }" = true.
Proof. vm_compute. reflexivity. Qed.

Example O01_body_goose_Ctx_returnExpr :
  has_body func_bodies "goose.Ctx.returnExpr"
    "func(es []ast.Expr) coq.Expr"
    "{ if len(es) == 0 { return coq.ReturnExpr{Value: coq.UnitLiteral{}} } var exprs coq.TupleExpr for _, r := range es { exprs = append(exprs, ctx.expr(r)) } return coq.ReturnExpr{Value: coq.NewTuple(exprs)} }" = true.
Proof. vm_compute. reflexivity. Qed.

Example O01_body_goose_Ctx_funcDecl :
  has_body func_bodies "goose.Ctx.funcDecl"
    "func(d *ast.FuncDecl) coq.FuncDecl"
    "{ if d.Name.Name == ""_"" { ctx.unsupported(d.Name, ""function named _"") } fd := coq.FuncDecl{Name: d.Name.Name, AddTypes: ctx.PkgConfig.TypeCheck, TypeParams: ctx.typeParamList(d.Type.TypeParams), } addSourceDoc(d.Doc, &fd.Comment) ctx.addSourceFile(d, &fd.Comment) if d.Recv != nil { if len(d.Recv.List) != 1 { ctx.nope(d, ""function with multiple receivers"") } rcvr := d.Recv.List[0] rcvrTy := rcvr.Type if star, ok := rcvrTy.(*ast.StarExpr); ok { rcvrTy = star.X } ident, ok := rcvrTy.(*ast.Ident) if !ok { ctx.unsupported(rcvr, ""unexpected function receiver type: %s"", ctx.printGo(rcvrTy)) } fd.Name = coq.MethodName(ident.Name, d.Name.Name) fd.Args = append(fd.Args, ctx.field(rcvr)) } fd.Args = append(fd.Args, ctx.paramList(d.Type.Params)...) for _, arg := range fd.Args { if arg.Name == fd.Name { ctx.unsupported(d.Name, ""parameter with the name of its function"") } } fd.ReturnType = ctx.returnType(d.Type.Results) fd.Body = ctx.blockStmt(d.Body, ExprValReturned) ctx.dep.addName(fd.Name) return fd }" = true.
Proof. vm_compute. reflexivity. Qed.

Example O01_body_goose_Ctx_funcLit :
  has_body func_bodies "goose.Ctx.funcLit"
    "func(e *ast.FuncLit) coq.FuncLit"
    "{ fl := coq.FuncLit{} fl.Args = ctx.paramList(e.Type.Params) fl.Body = ctx.blockStmt(e.Body, ExprValReturned) return fl }" = true.
Proof. vm_compute. reflexivity. Qed.

Example O01_body_goose_Ctx_coqRecurFunc :
  has_body func_bodies "goose.Ctx.coqRecurFunc"
    "func(fullFuncName string, e *ast.Ident) coq.Expr"
    "{ obj, ok := ctx.info.Uses[e] if !ok { panic(""type checker doesn't have func"") } if ctx.pkgPath != obj.Pkg().Path() { return coq.GallinaIdent(fullFuncName) } fun := obj.(*types.Func) if fun.Scope().Contains(e.Pos()) { return coq.GallinaString(fullFuncName) } else { return coq.GallinaIdent(fullFuncName) } }" = true.
Proof. vm_compute. reflexivity. Qed.

Example O01_body_goose_Ctx_exprSpecial :
  has_body func_bodies "goose.Ctx.exprSpecial"
    "func(e ast.Expr, isSpecial bool) coq.Expr"
    "{ switch e := e.(type) { case *ast.CallExpr: return ctx.callExpr(e) case *ast.MapType: return ctx.mapType(e) case *ast.Ident: return ctx.identExpr(e) case *ast.SelectorExpr: return ctx.selectExpr(e) case *ast.CompositeLit: return ctx.compositeLiteral(e) case *ast.BasicLit: return ctx.basicLiteral(e) case *ast.BinaryExpr: return ctx.binExpr(e) case *ast.SliceExpr: return ctx.sliceExpr(e) case *ast.IndexExpr: return ctx.indexExpr(e, isSpecial) case *ast.UnaryExpr: return ctx.unaryExpr(e) case *ast.ParenExpr: return ctx.expr(e.X) case *ast.StarExpr: return ctx.derefExpr(e.X) case *ast.TypeAssertExpr: if isSpecial { ctx.unsupported(e, ""type assertion with ok result"") } return ctx.expr(e.X) case *ast.FuncLit: return ctx.funcLit(e) default: ctx.unsupported(e, ""unexpected expr"") } return nil }" = true.
Proof. vm_compute. reflexivity. Qed.

Example O01_body_goose_Ctx_expr :
  has_body func_bodies "goose.Ctx.expr"
    "func(e ast.Expr) coq.Expr"
    "{ return ctx.exprSpecial(e, false) }" = true.
Proof. vm_compute. reflexivity. Qed.

Example O01_body_goose_Ctx_binExpr :
  has_body func_bodies "goose.Ctx.binExpr"
    "func(e *ast.BinaryExpr) coq.Expr"
    "{ op, ok := map[token.Token]coq.BinOp{ token.LSS: coq.OpLessThan, token.GTR: coq.OpGreaterThan, token.SUB: coq.OpMinus, token.EQL: coq.OpEquals, token.NEQ: coq.OpNotEquals, token.MUL: coq.OpMul, token.QUO: coq.OpQuot, token.REM: coq.OpRem, token.LEQ: coq.OpLessEq, token.GEQ: coq.OpGreaterEq, token.AND: coq.OpAnd, token.LAND: coq.OpLAnd, token.OR: coq.OpOr, token.LOR: coq.OpLOr, token.XOR: coq.OpXor, token.SHL: coq.OpShl, token.SHR: coq.OpShr, }[e.Op] if isString(ctx.typeOf(e.X)) { switch e.Op { case token.LSS, token.GTR, token.LEQ, token.GEQ: ctx.unsupported(e, ""ordering comparison %v of strings"", e.Op) return nil } } if e.Op == token.ADD { if isString(ctx.typeOf(e.X)) { op = coq.OpAppend } else { op = coq.OpPlus } ok = true } if ok { expr := coq.BinaryExpr{ X: ctx.expr(e.X), Op: op, Y: ctx.expr(e.Y), } if ctx.isNilCompareExpr(e) { if _, ok := ctx.typeOf(e.X).(*types.Pointer); ok { expr.Y = coq.Null } if _, ok := ctx.typeOf(e.X).Underlying().(*types.Map); ok { expr.Y = coq.Null } } return expr } ctx.unsupported(e, ""binary operator %v"", e.Op) return nil }" = true.
Proof. vm_compute. reflexivity. Qed.

Example O01_body_goose_Ctx_unaryExpr :
  has_body func_bodies "goose.Ctx.unaryExpr"
    "func(e *ast.UnaryExpr) coq.Expr"
    "{ if e.Op == token.NOT { return coq.NotExpr{X: ctx.expr(e.X)} } if e.Op == token.XOR { return coq.NotExpr{X: ctx.expr(e.X)} } if e.Op == token.AND { if x, ok := e.X.(*ast.IndexExpr); ok { if xTy, ok := ctx.typeOf(x.X).(*types.Slice); ok { return coq.NewCallExpr(coq.GallinaIdent(""SliceRef""), ctx.coqTypeOfType(e, xTy.Elem()), ctx.expr(x.X), ctx.expr(x.Index)) } } if info, ok := ctx.getStructInfo(ctx.typeOf(e.X)); ok { structLit, ok := e.X.(*ast.CompositeLit) if ok { sl := ctx.structLiteral(info, structLit) sl.Allocation = true return sl } } return ctx.refExpr(e.X) } ctx.unsupported(e, ""unary expression %s"", e.Op) return nil }" = true.
Proof. vm_compute. reflexivity. Qed.

Example O01_body_goose_Ctx_basicLiteral :
  has_body func_bodies "goose.Ctx.basicLiteral"
    "func(e *ast.BasicLit) coq.Expr"
    "{ if e.Kind == token.STRING { v := ctx.info.Types[e].Value s := constant.StringVal(v) if strings.ContainsRune(s, '""') { ctx.unsupported(e, ""string literals with quotes"") } if strings.ContainsRune(s, '\n') { ctx.unsupported(e, ""string literals with newlines"") } return coq.StringLiteral{Value: s} } if e.Kind == token.INT { info, _ := getIntegerType(ctx.typeOf(e)) v := ctx.info.Types[e].Value if v.Kind() != constant.Int { ctx.unsupported(e, ""int literal used at type %v"", ctx.typeOf(e)) return nil } n, ok := constant.Uint64Val(v) if !ok { ctx.unsupported(e, ""int literals must be positive numbers"") return nil } if info.isUint64() { return coq.IntLiteral{Value: n} } else if info.isUint32() { return coq.Int32Literal{Value: uint32(n)} } else if info.isUint8() { return coq.ByteLiteral{Value: uint8(n)} } } ctx.unsupported(e, ""literal with kind %s"", e.Kind) return nil }" = true.
Proof. vm_compute. reflexivity. Qed.

Example O01_body_goose_Ctx_integerConversion :
  has_body func_bodies "goose.Ctx.integerConversion"
    "func(s ast.Node, x ast.Expr, width int) coq.Expr"
    "{ if info, ok := getIntegerType(ctx.typeOf(x)); ok { if info.isUntyped { ctx.todo(s, ""conversion from untyped int to uint64"") } if info.width == width { return ctx.expr(x) } return coq.NewCallExpr(coq.GallinaIdent(fmt.Sprintf(""to_u%d"", width)), ctx.expr(x)) } ctx.unsupported(s, ""casts from unsupported type %v to uint%d"", ctx.typeOf(x), width) return nil }" = true.
Proof. vm_compute. reflexivity. Qed.

Example O01_body_goose_Ctx_callExpr :
  has_body func_bodies "goose.Ctx.callExpr"
    "func(s *ast.CallExpr) coq.Expr"
    "{ isBuiltin := func(name string) bool { id, ok := s.Fun.(*ast.Ident) return ok && id.Name == name && ctx.goBuiltin(id) } if isBuiltin(""make"") { return ctx.makeExpr(s.Args) } if isBuiltin(""new"") { return ctx.newExpr(s.Args[0]) } if isBuiltin(""len"") { return ctx.lenExpr(s) } if isBuiltin(""cap"") { return ctx.capExpr(s) } if isBuiltin(""append"") { elemTy := sliceElem(ctx.typeOf(s.Args[0]).Underlying()) if s.Ellipsis == token.NoPos { return coq.NewCallExpr(coq.GallinaIdent(""SliceAppend""), ctx.coqTypeOfType(s, elemTy), ctx.expr(s.Args[0]), ctx.expr(s.Args[1])) } return coq.NewCallExpr(coq.GallinaIdent(""SliceAppendSlice""), ctx.coqTypeOfType(s, elemTy), ctx.expr(s.Args[0]), ctx.expr(s.Args[1])) } if isBuiltin(""copy"") { return ctx.copyExpr(s, s.Args[0], s.Args[1]) } if isBuiltin(""delete"") { if _, ok := ctx.typeOf(s.Args[0]).(*types.Map); !ok { ctx.unsupported(s, ""delete on non-map"") } return coq.NewCallExpr(coq.GallinaIdent(""MapDelete""), ctx.expr(s.Args[0]), ctx.expr(s.Args[1])) } if isBuiltin(""uint64"") { return ctx.integerConversion(s, s.Args[0], 64) } if isBuiltin(""uint32"") { return ctx.integerConversion(s, s.Args[0], 32) } if isBuiltin(""uint8"") || isBuiltin(""byte"") { return ctx.integerConversion(s, s.Args[0], 8) } if isBuiltin(""panic"") { msg := ""oops"" if e, ok := s.Args[0].(*ast.BasicLit); ok { if e.Kind == token.STRING { v := ctx.info.Types[e].Value msg = constant.StringVal(v) } } msg = strings.ReplaceAll(msg, ""\"""", ""\""\"""") return coq.NewCallExpr(coq.GallinaIdent(""Panic""), coq.GallinaString(msg)) } if len(s.Args) == 1 { if tuple, ok := ctx.typeOf(s.Args[0]).(*types.Tuple); ok && tuple.Len() > 1 { ctx.unsupported(s, ""call whose arguments are the results of a multi-valued call"") } } if _, ok := s.Fun.(*ast.SelectorExpr); ok { } else { if signature, ok := ctx.typeOf(s.Fun).(*types.Signature); ok { for j := 0; j < signature.Params().Len(); j++ { if _, ok := signature.Params().At(j).Type().Underlying().(*types.Interface); ok { interfaceName := signature.Params().At(j).Type().String() structName := ctx.typeOf(s.Args[0]).String() interfaceName = unqualifyName(interfaceName) structName = unqualifyName(structName) if interfaceName != structName && interfaceName != """" && structName != """" { conversion := coq.StructToInterfaceDecl{ Fun: ctx.expr(s.Fun).Coq(true), Struct: structName, Interface: interfaceName, Arg: ctx.expr(s.Args[0]).Coq(true), }.Coq(true) for i, arg := range s.Args { if i > 0 { conversion += "" "" + ctx.expr(arg).Coq(true) } } return coq.CallExpr{MethodName: coq.GallinaIdent(conversion)} } } } } } return ctx.methodExpr(s) }" = true.
Proof. vm_compute. reflexivity. Qed.

Example O01_body_goose_Ctx_methodExpr :
  has_body func_bodies "goose.Ctx.methodExpr"
    "func(call *ast.CallExpr) coq.Expr"
    "{ args := call.Args if ctx.info.Types[call.Fun].IsType() { if f, ok := call.Fun.(*ast.ArrayType); ok { if f.Len == nil && isIdent(f.Elt, ""byte"") { arg := args[0] if isString(ctx.typeOf(arg)) { return ctx.newCoqCall(""StringToBytes"", args) } } } if f, ok := call.Fun.(*ast.Ident); ok && f.Name == ""string"" { arg := args[0] if isString(ctx.typeOf(arg).Underlying()) { return ctx.expr(args[0]) } if !isByteSlice(ctx.typeOf(arg)) { ctx.unsupported(call, ""conversion from type %v to string"", ctx.typeOf(arg)) return coq.CallExpr{} } return ctx.newCoqCall(""StringFromBytes"", args) } return ctx.expr(args[0]) } var retExpr coq.Expr f := call.Fun switch indexF := f.(type) { case *ast.IndexExpr: f = indexF.X case *ast.IndexListExpr: f = indexF.X } switch f := f.(type) { case *ast.Ident: typeArgs := ctx.typeList(call, ctx.info.Instances[f].TypeArgs) callee := ctx.identExpr(f) if _, recursive := callee.(coq.GallinaString); recursive && len(typeArgs) > 0 { if !ctx.instantiatedAtOwnTypeParams(f) { ctx.unsupported(call, ""recursive call of a generic function at other type arguments"") } typeArgs = nil } retExpr = ctx.newCoqCallTypeArgs(callee, typeArgs, args) case *ast.SelectorExpr: retExpr = ctx.selectorMethod(f, call) case *ast.IndexExpr: ctx.nope(call, ""double explicit generic type instantiation"") case *ast.IndexListExpr: ctx.nope(call, ""double explicit generic type instantiation with multiple arguments"") default: ctx.unsupported(call, ""call to unexpected function (of type %T)"", call.Fun) } return retExpr }" = true.
Proof. vm_compute. reflexivity. Qed.

Example O01_body_goose_Ctx_identExpr :
  has_body func_bodies "goose.Ctx.identExpr"
    "func(e *ast.Ident) coq.Expr"
    "{ if ctx.goBuiltin(e) { switch e.Name { case ""nil"": return ctx.nilExpr(e) case ""true"": return coq.True case ""false"": return coq.False } ctx.unsupported(e, ""special identifier"") } obj := ctx.info.ObjectOf(e) if _, ok := obj.(*types.Const); ok { return ctx.variable(e) } if _, ok := obj.(*types.Var); ok { return ctx.variable(e) } if _, ok := obj.(*types.Func); ok { return ctx.function(e) } ctx.unsupported(e, ""unrecognized kind of identifier; not local variable or global function"") panic("""") }" = true.
Proof. vm_compute. reflexivity. Qed.

Example O01_body_goose_Ctx_variable :
  has_body func_bodies "goose.Ctx.variable"
    "func(s *ast.Ident) coq.Expr"
    "{ if ctx.isGlobalVar(s) { ctx.dep.addDep(s.Name) return coq.GallinaIdent(s.Name) } e := coq.IdentExpr(s.Name) if ctx.isPtrWrapped(s) { return coq.DerefExpr{X: e, Ty: ctx.coqTypeOfType(s, ctx.typeOf(s))} } return e }" = true.
Proof. vm_compute. reflexivity. Qed.

Example O01_body_goose_Ctx_indexExpr :
  has_body func_bodies "goose.Ctx.indexExpr"
    "func(e *ast.IndexExpr, isSpecial bool) coq.CallExpr"
    "{ xTy := ctx.typeOf(e.X).Underlying() switch xTy := xTy.(type) { case *types.Map: e := coq.NewCallExpr(coq.GallinaIdent(""MapGet""), ctx.expr(e.X), ctx.expr(e.Index)) if !isSpecial { e = coq.NewCallExpr(coq.GallinaIdent(""Fst""), e) } return e case *types.Slice: return coq.NewCallExpr(coq.GallinaIdent(""SliceGet""), ctx.coqTypeOfType(e, xTy.Elem()), ctx.expr(e.X), ctx.expr(e.Index)) } ctx.unsupported(e, ""index into unknown type %v"", xTy) return coq.CallExpr{} }" = true.
Proof. vm_compute. reflexivity. Qed.

Example O01_body_goose_Ctx_derefExpr :
  has_body func_bodies "goose.Ctx.derefExpr"
    "func(e ast.Expr) coq.Expr"
    "{ info, ok := ctx.getStructInfo(ctx.typeOf(e)) if ok && info.throughPointer { ctx.dep.addDep(info.name) return coq.NewCallExpr(coq.GallinaIdent(""struct.load""), coq.StructDesc(info.name), ctx.expr(e)) } return coq.DerefExpr{ X: ctx.expr(e), Ty: ctx.coqTypeOfType(e, ptrElem(ctx.typeOf(e))), } }" = true.
Proof. vm_compute. reflexivity. Qed.

Example O01_body_goose_Ctx_sliceExpr :
  has_body func_bodies "goose.Ctx.sliceExpr"
    "func(e *ast.SliceExpr) coq.Expr"
    "{ if e.Slice3 { ctx.unsupported(e, ""3-index slice"") return nil } if e.Max != nil { ctx.unsupported(e, ""setting the max capacity in a slice expression is not supported"") return nil } if _, ok := ctx.typeOf(e.X).Underlying().(*types.Slice); !ok { ctx.unsupported(e, ""slice expression on %v (only slices are supported)"", ctx.typeOf(e.X)) return nil } x := ctx.expr(e.X) if e.Low != nil && e.High == nil { return coq.NewCallExpr(coq.GallinaIdent(""SliceSkip""), ctx.coqTypeOfType(e, sliceElem(ctx.typeOf(e.X))), x, ctx.expr(e.Low)) } if e.Low == nil && e.High != nil { return coq.NewCallExpr(coq.GallinaIdent(""SliceTake""), x, ctx.expr(e.High)) } if e.Low != nil && e.High != nil { return coq.NewCallExpr(coq.GallinaIdent(""SliceSubslice""), ctx.coqTypeOfType(e, sliceElem(ctx.typeOf(e.X))), x, ctx.expr(e.Low), ctx.expr(e.High)) } if e.Low == nil && e.High == nil { ctx.unsupported(e, ""complete slice doesn't do anything"") } return nil }" = true.
Proof. vm_compute. reflexivity. Qed.

Example O01_body_goose_Ctx_selectExpr :
  has_body func_bodies "goose.Ctx.selectExpr"
    "func(e *ast.SelectorExpr) coq.Expr"
    "{ selectorType, ok := ctx.getType(e.X) if !ok { if isIdent(e.X, ""filesys"") { return coq.GallinaIdent(""FS."" + e.Sel.Name) } if isIdent(e.X, ""disk"") { return coq.GallinaIdent(""disk."" + e.Sel.Name) } if pkg, ok := getIdent(e.X); ok { return coq.PackageIdent{ Package: pkg, Ident: e.Sel.Name, } } } structInfo, ok := ctx.getStructInfo(selectorType) _, isFuncType := (ctx.typeOf(e)).(*types.Signature) if isFuncType { m := coq.MethodName(structInfo.name, e.Sel.Name) ctx.dep.addDep(m) return coq.NewCallExpr(coq.GallinaIdent(m), ctx.expr(e.X)) } if ok { return ctx.structSelector(structInfo, e) } ctx.unsupported(e, ""unexpected select expression"") return nil }" = true.
Proof. vm_compute. reflexivity. Qed.

Example O01_body_goose_Ctx_structSelector :
  has_body func_bodies "goose.Ctx.structSelector"
    "func(info structTypeInfo, e *ast.SelectorExpr) coq.StructFieldAccessExpr"
    "{ ctx.dep.addDep(info.name) return coq.StructFieldAccessExpr{ Struct: info.name, Field: e.Sel.Name, X: ctx.expr(e.X), ThroughPointer: info.throughPointer, } }" = true.
Proof. vm_compute. reflexivity. Qed.

Example O01_body_goose_Ctx_compositeLiteral :
  has_body func_bodies "goose.Ctx.compositeLiteral"
    "func(e *ast.CompositeLit) coq.Expr"
    "{ if _, ok := ctx.typeOf(e).Underlying().(*types.Slice); ok { if len(e.Elts) == 0 { var elemTy coq.Type if sliceTy, ok := ctx.coqType(e.Type).(coq.SliceType); ok { elemTy = sliceTy.Value } else { elemTy = ctx.coqTypeOfType(e, sliceElem(ctx.typeOf(e).Underlying())) } zeroLit := coq.IntLiteral{Value: 0} return coq.NewCallExpr(coq.GallinaIdent(""NewSlice""), elemTy, zeroLit) } if len(e.Elts) == 1 { return ctx.newCoqCall(""SliceSingleton"", []ast.Expr{e.Elts[0]}) } ctx.unsupported(e, ""slice literal with multiple elements"") return nil } info, ok := ctx.getStructInfo(ctx.typeOf(e)) if ok { return ctx.structLiteral(info, e) } ctx.unsupported(e, ""composite literal of type %v"", ctx.typeOf(e)) return nil }" = true.
Proof. vm_compute. reflexivity. Qed.

Example O01_body_goose_Ctx_structLiteral :
  has_body func_bodies "goose.Ctx.structLiteral"
    "func(info structTypeInfo, e *ast.CompositeLit) coq.StructLiteral"
    "{ ctx.dep.addDep(info.name) lit := coq.NewStructLiteral(info.name) for _, el := range e.Elts { switch el := el.(type) { case *ast.KeyValueExpr: ident, ok := getIdent(el.Key) if !ok { ctx.noExample(el.Key, ""struct field keyed by non-identifier %+v"", el.Key) return coq.StructLiteral{} } lit.AddField(ident, ctx.expr(el.Value)) default: ctx.unsupported(e, ""un-keyed struct literal field %v"", ctx.printGo(el)) } } return lit }" = true.
Proof. vm_compute. reflexivity. Qed.

Example O01_body_goose_Ctx_makeExpr :
  has_body func_bodies "goose.Ctx.makeExpr"
    "func(args []ast.Expr) coq.CallExpr"
    "{ switch typeArg := args[0].(type) { case *ast.MapType: mapTy := ctx.mapType(typeArg) return coq.NewCallExpr(coq.GallinaIdent(""NewMap""), mapTy.Key, mapTy.Value, coq.UnitLiteral{}) case *ast.ArrayType: if typeArg.Len != nil { ctx.nope(typeArg, ""can't make() arrays (only slices)"") } elt := ctx.coqType(typeArg.Elt) return ctx.makeSliceExpr(elt, args) } switch ty := ctx.typeOf(args[0]).Underlying().(type) { case *types.Slice: elt := ctx.coqTypeOfType(args[0], ty.Elem()) return ctx.makeSliceExpr(elt, args) case *types.Map: return coq.NewCallExpr(coq.GallinaIdent(""NewMap""), ctx.coqTypeOfType(args[0], ty.Key()), ctx.coqTypeOfType(args[0], ty.Elem()), coq.UnitLiteral{}) default: ctx.unsupported(args[0], ""make type should be slice or map, got %v"", ty) } return coq.CallExpr{} }" = true.
Proof. vm_compute. reflexivity. Qed.

Example O01_body_goose_Ctx_makeSliceExpr :
  has_body func_bodies "goose.Ctx.makeSliceExpr"
    "func(elt coq.Type, args []ast.Expr) coq.CallExpr"
    "{ if len(args) == 2 { return coq.NewCallExpr(coq.GallinaIdent(""NewSlice""), elt, ctx.expr(args[1])) } else if len(args) == 3 { return coq.NewCallExpr(coq.GallinaIdent(""NewSliceWithCap""), elt, ctx.expr(args[1]), ctx.expr(args[2])) } else { ctx.unsupported(args[0], ""Too many or too few arguments in slice construction"") return coq.CallExpr{} } }" = true.
Proof. vm_compute. reflexivity. Qed.

Example O01_body_goose_Ctx_newExpr :
  has_body func_bodies "goose.Ctx.newExpr"
    "func(ty ast.Expr) coq.CallExpr"
    "{ if sel, ok := ty.(*ast.SelectorExpr); ok { if isIdent(sel.X, ""sync"") && isIdent(sel.Sel, ""Mutex"") { return coq.NewCallExpr(coq.GallinaIdent(""lock.new"")) } if isIdent(sel.X, ""sync"") && isIdent(sel.Sel, ""WaitGroup"") { return coq.NewCallExpr(coq.GallinaIdent(""waitgroup.New"")) } if isIdent(sel.X, ""cfmutex"") && isIdent(sel.Sel, ""CFMutex"") { return coq.NewCallExpr(coq.GallinaIdent(""lock.new"")) } } if t, ok := ctx.typeOf(ty).(*types.Array); ok { return coq.NewCallExpr(coq.GallinaIdent(""zero_array""), ctx.coqTypeOfType(ty, t.Elem()), coq.IntLiteral{Value: uint64(t.Len())}) } e := coq.NewCallExpr(coq.GallinaIdent(""zero_val""), ctx.coqType(ty)) if info, ok := ctx.getStructInfo(ctx.typeOf(ty)); ok && !info.throughPointer { return coq.NewCallExpr(coq.GallinaIdent(""struct.alloc""), coq.StructDesc(info.name), e) } return coq.NewCallExpr(coq.GallinaIdent(""ref""), e) }" = true.
Proof. vm_compute. reflexivity. Qed.

Example O01_body_goose_Ctx_lenExpr :
  has_body func_bodies "goose.Ctx.lenExpr"
    "func(e *ast.CallExpr) coq.CallExpr"
    "{ x := e.Args[0] xTy := ctx.typeOf(x) switch ty := xTy.Underlying().(type) { case *types.Slice: return coq.NewCallExpr(coq.GallinaIdent(""slice.len""), ctx.expr(x)) case *types.Map: return coq.NewCallExpr(coq.GallinaIdent(""MapLen""), ctx.expr(x)) case *types.Basic: if ty.Kind() == types.String { return coq.NewCallExpr(coq.GallinaIdent(""StringLength""), ctx.expr(x)) } } ctx.unsupported(e, ""length of object of type %v"", xTy) return coq.CallExpr{} }" = true.
Proof. vm_compute. reflexivity. Qed.

Example O01_body_goose_Ctx_copyExpr :
  has_body func_bodies "goose.Ctx.copyExpr"
    "func(n ast.Node, dst ast.Expr, src ast.Expr) coq.Expr"
    "{ e := sliceElem(ctx.typeOf(dst)) return coq.NewCallExpr(coq.GallinaIdent(""SliceCopy""), ctx.coqTypeOfType(n, e), ctx.expr(dst), ctx.expr(src)) }" = true.
Proof. vm_compute. reflexivity. Qed.

Example O01_body_goose_Ctx_nilExpr :
  has_body func_bodies "goose.Ctx.nilExpr"
    "func(e *ast.Ident) coq.Expr"
    "{ t := ctx.typeOf(e) switch t.(type) { case *types.Pointer: return coq.GallinaIdent(""null"") case *types.Slice: return coq.GallinaIdent(""slice.nil"") case *types.Basic: return coq.GallinaIdent(""slice.nil"") default: ctx.unsupported(e, ""nil of type %v (not pointer or slice)"", t) return nil } }" = true.
Proof. vm_compute. reflexivity. Qed.

Example O01_body_goose_Ctx_isPtrWrapped :
  has_body func_bodies "goose.Ctx.isPtrWrapped"
    "func(ident *ast.Ident) bool"
    "{ obj := ctx.getObj(ident) isWrapped, ok := ctx.idents.isPtrWrapped[obj] if !ok { return false } return isWrapped }" = true.
Proof. vm_compute. reflexivity. Qed.

Example O01_body_goose_Ctx_setPtrWrapped :
  has_body func_bodies "goose.Ctx.setPtrWrapped"
    "func(ident *ast.Ident)"
    "{ obj := ctx.getObj(ident) ctx.idents.isPtrWrapped[obj] = true }" = true.
Proof. vm_compute. reflexivity. Qed.

Example O01_body_coq_BinaryExpr_Coq :
  has_body func_bodies "coq.BinaryExpr.Coq"
    "func(needs_paren bool) string"
    "{ coqBinOp := map[BinOp]string{ OpPlus: ""+"", OpMinus: ""-"", OpEquals: ""="", OpNotEquals: ""≠"", OpAppend: ""+"", OpMul: ""*"", OpQuot: ""`quot`"", OpRem: ""`rem`"", OpLessThan: ""<"", OpGreaterThan: "">"", OpLessEq: ""≤"", OpGreaterEq: ""≥"", OpAnd: ""`and`"", OpOr: ""`or`"", OpXor: ""`xor`"", OpLAnd: ""&&"", OpLOr: ""||"", OpShl: ""≪"", OpShr: ""≫"", } if binop, ok := coqBinOp[be.Op]; ok { expr := fmt.Sprintf(""%s %s %s"", be.X.Coq(true), binop, be.Y.Coq(true)) return addParens(needs_paren, expr) } panic(fmt.Sprintf(""unknown binop %d"", be.Op)) }" = true.
Proof. vm_compute. reflexivity. Qed.

Example O01_body_coq_Binding_AddTo :
  has_body func_bodies "coq.Binding.AddTo"
    "func(pp *buffer)"
    "{ if e, ok := b.Expr.(LoggingStmt); ok { pp.Add(""%s"", e.Coq(true)) return } if b.isAnonymous() { pp.Add(""%s;;"", b.Expr.Coq(false)) } else if len(b.Names) == 1 { pp.Add(""let: %s := %s in"", binder(b.Names[0]), b.Expr.Coq(false)) } else if len(b.Names) == 2 { pp.Add(""let: (%s, %s) := %s in"", binder(b.Names[0]), binder(b.Names[1]), b.Expr.Coq(false)) } else if len(b.Names) == 3 { pp.Add(""let: ((%s, %s), %s) := %s in"", binder(b.Names[0]), binder(b.Names[1]), binder(b.Names[2]), b.Expr.Coq(false)) } else if len(b.Names) == 4 { pp.Add(""let: (((%s, %s), %s), %s) := %s in"", binder(b.Names[0]), binder(b.Names[1]), binder(b.Names[2]), binder(b.Names[3]), b.Expr.Coq(false)) } else { panic(""no support for destructuring more than 4 return values"") } }" = true.
Proof. vm_compute. reflexivity. Qed.

Example O01_body_coq_BlockExpr_Coq :
  has_body func_bodies "coq.BlockExpr.Coq"
    "func(needs_paren bool) string"
    "{ var pp buffer for n, b := range be.Bindings { if n == len(be.Bindings)-1 { if _, ok := b.Expr.(LoggingStmt); ok { pp.AddLine(b.Expr.Coq(false)) pp.AddLine(UnitLiteral{}.Coq(true)) } else { pp.AddLine(b.Expr.Coq(false)) } continue } b.AddTo(&pp) } return addParens(needs_paren, pp.Build()) }" = true.
Proof. vm_compute. reflexivity. Qed.

Example O01_body_coq_IfExpr_Coq :
  has_body func_bodies "coq.IfExpr.Coq"
    "func(needs_paren bool) string"
    "{ var pp buffer pp.Add(""(if: %s"", ife.Cond.Coq(false)) flowBranch(&pp, ""then"", ife.Then, """") flowBranch(&pp, ""else"", ife.Else, "")"") return pp.Build() }" = true.
Proof. vm_compute. reflexivity. Qed.

Example O01_body_coq_ForLoopExpr_Coq :
  has_body func_bodies "coq.ForLoopExpr.Coq"
    "func(needs_paren bool) string"
    "{ var pp buffer e.Init.AddTo(&pp) pp.Add(""(for: (λ: <>, %s); (λ: <>, %s) := λ: <>,"", e.Cond.Coq(false), e.Post.Coq(false)) pp.Indent(2) pp.Add(""%s)"", e.Body.Coq(false)) return pp.Build() }" = true.
Proof. vm_compute. reflexivity. Qed.

Example O01_body_coq_ParenExpr_Coq :
  has_body func_bodies "coq.ParenExpr.Coq"
    "func(needs_paren bool) string"
    "{ return ""("" + indent(1, e.X.Coq(false)) + "")"" }" = true.
Proof. vm_compute. reflexivity. Qed.

Example O01_body_coq_SliceLoopExpr_Coq :
  has_body func_bodies "coq.SliceLoopExpr.Coq"
    "func(needs_paren bool) string"
    "{ var pp buffer pp.Add(""ForSlice %v %s %s %s"", e.Ty.Coq(true), binderToCoq(e.Key), binderToCoq(e.Val), e.Slice.Coq(true)) pp.Indent(2) pp.Add(""%s"", e.Body.Coq(true)) return addParens(needs_paren, pp.Build()) }" = true.
Proof. vm_compute. reflexivity. Qed.

Example O01_body_coq_MapIterExpr_Coq :
  has_body func_bodies "coq.MapIterExpr.Coq"
    "func(needs_paren bool) string"
    "{ var pp buffer pp.Add(""MapIter %s (λ: %s %s,"", e.Map.Coq(true), binder(e.KeyIdent), binder(e.ValueIdent)) pp.Indent(2) pp.Add(""%s)"", e.Body.Coq(false)) return addParens(needs_paren, pp.Build()) }" = true.
Proof. vm_compute. reflexivity. Qed.

Example O01_body_coq_CallExpr_Coq :
  has_body func_bodies "coq.CallExpr.Coq"
    "func(needs_paren bool) string"
    "{ comps := []string{s.MethodName.Coq(true)} for _, a := range s.TypeArgs { comps = append(comps, a.Coq(true)) } for _, a := range s.Args { comps = append(comps, a.Coq(true)) } return addParens(needs_paren, strings.Join(comps, "" "")) }" = true.
Proof. vm_compute. reflexivity. Qed.

Example O01_body_coq_DerefExpr_Coq :
  has_body func_bodies "coq.DerefExpr.Coq"
    "func(needs_paren bool) string"
    "{ expr := fmt.Sprintf(""![%s] %s"", e.Ty.Coq(false), e.X.Coq(true)) return addParens(needs_paren, expr) }" = true.
Proof. vm_compute. reflexivity. Qed.

Example O01_body_coq_RefExpr_Coq :
  has_body func_bodies "coq.RefExpr.Coq"
    "func(needs_paren bool) string"
    "{ return NewCallExpr(GallinaIdent(""ref_to""), e.Ty, e.X).Coq(needs_paren) }" = true.
Proof. vm_compute. reflexivity. Qed.

Example O01_body_coq_StoreStmt_Coq :
  has_body func_bodies "coq.StoreStmt.Coq"
    "func(needs_paren bool) string"
    "{ expr := fmt.Sprintf(""%s <-[%s] %s"", e.Dst.Coq(true), e.Ty.Coq(false), e.X.Coq(true)) return addParens(needs_paren, expr) }" = true.
Proof. vm_compute. reflexivity. Qed.

Example O01_body_coq_NotExpr_Coq :
  has_body func_bodies "coq.NotExpr.Coq"
    "func(needs_paren bool) string"
    "{ return fmt.Sprintf(""(~ %s)"", e.X.Coq(true)) }" = true.
Proof. vm_compute. reflexivity. Qed.

Example O01_body_coq_TupleExpr_Coq :
  has_body func_bodies "coq.TupleExpr.Coq"
    "func(needs_paren bool) string"
    "{ var comps []string for _, t := range te { comps = append(comps, t.Coq(false)) } return fmt.Sprintf(""(%s)"", indent(1, strings.Join(comps, "", ""))) }" = true.
Proof. vm_compute. reflexivity. Qed.

Example O01_body_coq_StructLiteral_Coq :
  has_body func_bodies "coq.StructLiteral.Coq"
    "func(needs_paren bool) string"
    "{ var pp buffer method := ""struct.mk"" if sl.Allocation { method = ""struct.new"" } pp.Add(""%s %s ["", method, StructDesc(sl.StructName).Coq(true)) pp.Indent(2) for i, f := range sl.elts { terminator := "";"" if i == len(sl.elts)-1 { terminator = """" } pp.Add(""%s ::= %s%s"", quote(f.Field), f.Value.Coq(bindsLooserThanFieldInit(f.Value)), terminator) } pp.Indent(-2) pp.Add(""]"") return addParens(needs_paren, pp.Build()) }" = true.
Proof. vm_compute. reflexivity. Qed.

Example O01_body_coq_StructFieldAccessExpr_Coq :
  has_body func_bodies "coq.StructFieldAccessExpr.Coq"
    "func(needs_paren bool) string"
    "{ if e.ThroughPointer { return NewCallExpr(GallinaIdent(""struct.loadF""), StructDesc(e.Struct), GallinaString(e.Field), e.X).Coq(needs_paren) } return NewCallExpr(GallinaIdent(""struct.get""), StructDesc(e.Struct), GallinaString(e.Field), e.X).Coq(needs_paren) }" = true.
Proof. vm_compute. reflexivity. Qed.

Example O01_body_coq_FuncLit_Coq :
  has_body func_bodies "coq.FuncLit.Coq"
    "func(needs_paren bool) string"
    "{ var pp buffer var args []string for _, a := range e.Args { args = append(args, a.CoqBinder()) } if len(args) == 0 { args = []string{""<>""} } sig := strings.Join(args, "" "") pp.Add(""(λ: %s,"", sig) pp.Indent(2) defer pp.Indent(-2) pp.AddLine(e.Body.Coq(false)) pp.Add("")"") return pp.Build() }" = true.
Proof. vm_compute. reflexivity. Qed.

Example O01_body_coq_FuncDecl_CoqDecl :
  has_body func_bodies "coq.FuncDecl.CoqDecl"
    "func() string"
    "{ var pp buffer pp.AddComment(d.Comment) typeParams := make([]string, 0) for _, tp := range d.TypeParams { typeParams = append(typeParams, fmt.Sprintf("" (%s:ty)"", string(tp))) } pp.Add(""Definition %s%s: val :="", d.Name, strings.Join(typeParams, """")) func() { pp.Indent(2) defer pp.Indent(-2) pp.Add(""rec: \""%s\"" %s :="", d.Name, d.Signature()) pp.Indent(2) defer pp.Indent(-2) pp.AddLine(d.Body.Coq(false) + ""."") }() if d.AddTypes { pp.Add(""Theorem %s_t: ⊢ %s : (%s)."", d.Name, d.Name, d.Type()) pp.AddLine(""Proof. typecheck. Qed."") pp.Add(""Hint Resolve %s_t : types."", d.Name) } return pp.Build() }" = true.
Proof. vm_compute. reflexivity. Qed.

Example O01_body_coq_IntLiteral_Coq :
  has_body func_bodies "coq.IntLiteral.Coq"
    "func(needs_paren bool) string"
    "{ return fmt.Sprintf(""#%d"", l.Value) }" = true.
Proof. vm_compute. reflexivity. Qed.

Example O01_body_coq_Int32Literal_Coq :
  has_body func_bodies "coq.Int32Literal.Coq"
    "func(needs_paren bool) string"
    "{ return fmt.Sprintf(""#(U32 %d)"", l.Value) }" = true.
Proof. vm_compute. reflexivity. Qed.

Example O01_body_coq_ByteLiteral_Coq :
  has_body func_bodies "coq.ByteLiteral.Coq"
    "func(needs_paren bool) string"
    "{ return fmt.Sprintf(""#(U8 %v)"", l.Value) }" = true.
Proof. vm_compute. reflexivity. Qed.

Example O01_body_coq_BoolLiteral_Coq :
  has_body func_bodies "coq.BoolLiteral.Coq"
    "func(needs_paren bool) string"
    "{ if b { return ""#true"" } else { return ""#false"" } }" = true.
Proof. vm_compute. reflexivity. Qed.

Example O01_body_coq_StringLiteral_Coq :
  has_body func_bodies "coq.StringLiteral.Coq"
    "func(needs_paren bool) string"
    "{ return fmt.Sprintf(`#(str""%s"")`, l.Value) }" = true.
Proof. vm_compute. reflexivity. Qed.

Example O01_body_coq_addParens :
  has_body func_bodies "coq.addParens"
    "func(needs_paren bool, expr string) string"
    "{ if needs_paren { return ""("" + expr + "")"" } else { return expr } }" = true.
Proof. vm_compute. reflexivity. Qed.

Example O01_body_coq_flowBranch :
  has_body func_bodies "coq.flowBranch"
    "func(pp *buffer, prefix string, e Expr, suffix string)"
    "{ code := e.Coq(false) + suffix if !strings.ContainsRune(code, '\n') { indent := pp.Block(prefix+"" "", ""%s"", code) pp.Indent(-indent) return } pp.AddLine(prefix) pp.Indent(2) pp.AddLine(code) pp.Indent(-2) }" = true.
Proof. vm_compute. reflexivity. Qed.

Example O01_tab_table_binExpr :
  pairs_eqb table_binExpr [
  ("token.LSS", "coq.OpLessThan"); 
  ("token.GTR", "coq.OpGreaterThan"); 
  ("token.SUB", "coq.OpMinus"); 
  ("token.EQL", "coq.OpEquals"); 
  ("token.NEQ", "coq.OpNotEquals"); 
  ("token.MUL", "coq.OpMul"); 
  ("token.QUO", "coq.OpQuot"); 
  ("token.REM", "coq.OpRem"); 
  ("token.LEQ", "coq.OpLessEq"); 
  ("token.GEQ", "coq.OpGreaterEq"); 
  ("token.AND", "coq.OpAnd"); 
  ("token.LAND", "coq.OpLAnd"); 
  ("token.OR", "coq.OpOr"); 
  ("token.LOR", "coq.OpLOr"); 
  ("token.XOR", "coq.OpXor"); 
  ("token.SHL", "coq.OpShl"); 
  ("token.SHR", "coq.OpShr")
] = true.
Proof. vm_compute. reflexivity. Qed.

Example O01_tab_table_assignStmt :
  pairs_eqb table_assignStmt [
  ("token.ADD_ASSIGN", "coq.OpPlus"); 
  ("token.SUB_ASSIGN", "coq.OpMinus"); 
  ("token.OR_ASSIGN", "coq.OpOr"); 
  ("token.AND_ASSIGN", "coq.OpAnd"); 
  ("token.XOR_ASSIGN", "coq.OpXor")
] = true.
Proof. vm_compute. reflexivity. Qed.
