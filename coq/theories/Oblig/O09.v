(* Per-run obligations O09: machine/disk and machine/async_disk are the code Disk.v mirrors.
   The expected texts below were frozen from the source the models in this
   development were written against (bin/mkoblig.py); coq/gen is regenerated
   from /repo on every run and these Examples are re-checked by the kernel. *)
From Coq Require Import String List Bool.
From GV Require Import Base.Tables.
From GVGen Require Import GenBodies.
Open Scope string_scope.

Example O09_body_disk_Barrier :
  has_body func_bodies "disk.Barrier"
    "func()"
    "{ implicitDisk.Barrier() }" = true.
Proof. vm_compute. reflexivity. Qed.

Example O09_body_disk_FileDisk_Barrier :
  has_body func_bodies "disk.FileDisk.Barrier"
    "func()"
    "{ err := unix.Fsync(d.fd) if err != nil { panic(""file sync failed: "" + err.Error()) } }" = true.
Proof. vm_compute. reflexivity. Qed.

Example O09_body_disk_FileDisk_Close :
  has_body func_bodies "disk.FileDisk.Close"
    "func()"
    "{ err := unix.Close(d.fd) if err != nil { panic(err) } }" = true.
Proof. vm_compute. reflexivity. Qed.

Example O09_body_disk_FileDisk_Read :
  has_body func_bodies "disk.FileDisk.Read"
    "func(a uint64) Block"
    "{ buf := make([]byte, BlockSize) d.ReadTo(a, buf) return buf }" = true.
Proof. vm_compute. reflexivity. Qed.

Example O09_body_disk_FileDisk_ReadTo :
  has_body func_bodies "disk.FileDisk.ReadTo"
    "func(a uint64, buf Block)"
    "{ if uint64(len(buf)) != BlockSize { panic(""buffer is not block-sized"") } if a >= d.numBlocks { panic(fmt.Errorf(""out-of-bounds read at %v"", a)) } _, err := unix.Pread(d.fd, buf, int64(a*BlockSize)) if err != nil { panic(""read failed: "" + err.Error()) } }" = true.
Proof. vm_compute. reflexivity. Qed.

Example O09_body_disk_FileDisk_Size :
  has_body func_bodies "disk.FileDisk.Size"
    "func() uint64"
    "{ return d.numBlocks }" = true.
Proof. vm_compute. reflexivity. Qed.

Example O09_body_disk_FileDisk_Write :
  has_body func_bodies "disk.FileDisk.Write"
    "func(a uint64, v Block)"
    "{ if uint64(len(v)) != BlockSize { panic(fmt.Errorf(""v is not block sized (%d bytes)"", len(v))) } if a >= d.numBlocks { panic(fmt.Errorf(""out-of-bounds write at %v"", a)) } _, err := unix.Pwrite(d.fd, v, int64(a*BlockSize)) if err != nil { panic(""write failed: "" + err.Error()) } }" = true.
Proof. vm_compute. reflexivity. Qed.

Example O09_body_disk_Get :
  has_body func_bodies "disk.Get"
    "func() Disk"
    "{ return implicitDisk }" = true.
Proof. vm_compute. reflexivity. Qed.

Example O09_body_disk_Init :
  has_body func_bodies "disk.Init"
    "func(d Disk)"
    "{ implicitDisk = d }" = true.
Proof. vm_compute. reflexivity. Qed.

Example O09_body_disk_MemDisk_Barrier :
  has_body func_bodies "disk.MemDisk.Barrier"
    "func()"
    "{ }" = true.
Proof. vm_compute. reflexivity. Qed.

Example O09_body_disk_MemDisk_Close :
  has_body func_bodies "disk.MemDisk.Close"
    "func()"
    "{ }" = true.
Proof. vm_compute. reflexivity. Qed.

Example O09_body_disk_MemDisk_Read :
  has_body func_bodies "disk.MemDisk.Read"
    "func(a uint64) Block"
    "{ buf := make(Block, BlockSize) d.ReadTo(a, buf) return buf }" = true.
Proof. vm_compute. reflexivity. Qed.

Example O09_body_disk_MemDisk_ReadTo :
  has_body func_bodies "disk.MemDisk.ReadTo"
    "func(a uint64, buf Block)"
    "{ d.l.RLock() defer d.l.RUnlock() if a >= uint64(len(d.blocks)) { panic(fmt.Errorf(""out-of-bounds read at %v"", a)) } copy(buf, d.blocks[a][:]) }" = true.
Proof. vm_compute. reflexivity. Qed.

Example O09_body_disk_MemDisk_Size :
  has_body func_bodies "disk.MemDisk.Size"
    "func() uint64"
    "{ return uint64(len(d.blocks)) }" = true.
Proof. vm_compute. reflexivity. Qed.

Example O09_body_disk_MemDisk_Write :
  has_body func_bodies "disk.MemDisk.Write"
    "func(a uint64, v Block)"
    "{ if uint64(len(v)) != BlockSize { panic(fmt.Errorf(""v is not block-sized (%d bytes)"", len(v))) } d.l.Lock() defer d.l.Unlock() if a >= uint64(len(d.blocks)) { panic(fmt.Errorf(""out-of-bounds write at %v"", a)) } copy(d.blocks[a][:], v) }" = true.
Proof. vm_compute. reflexivity. Qed.

Example O09_body_disk_NewFileDisk :
  has_body func_bodies "disk.NewFileDisk"
    "func(path string, numBlocks uint64) (FileDisk, error)"
    "{ fd, err := unix.Open(path, unix.O_RDWR|unix.O_CREAT, 0666) if err != nil { return FileDisk{}, err } var stat unix.Stat_t err = unix.Fstat(fd, &stat) if err != nil { return FileDisk{}, err } if (stat.Mode&unix.S_IFREG) != 0 && uint64(stat.Size) != numBlocks*BlockSize { err = unix.Ftruncate(fd, int64(numBlocks*BlockSize)) if err != nil { return FileDisk{}, err } } return FileDisk{fd, numBlocks}, nil }" = true.
Proof. vm_compute. reflexivity. Qed.

Example O09_body_disk_NewMemDisk :
  has_body func_bodies "disk.NewMemDisk"
    "func(numBlocks uint64) MemDisk"
    "{ blocks := make([][BlockSize]byte, numBlocks) return MemDisk{l: new(sync.RWMutex), blocks: blocks} }" = true.
Proof. vm_compute. reflexivity. Qed.

Example O09_body_disk_Read :
  has_body func_bodies "disk.Read"
    "func(a uint64) Block"
    "{ return implicitDisk.Read(a) }" = true.
Proof. vm_compute. reflexivity. Qed.

Example O09_body_disk_Size :
  has_body func_bodies "disk.Size"
    "func() uint64"
    "{ return implicitDisk.Size() }" = true.
Proof. vm_compute. reflexivity. Qed.

Example O09_body_disk_Write :
  has_body func_bodies "disk.Write"
    "func(a uint64, v Block)"
    "{ implicitDisk.Write(a, v) }" = true.
Proof. vm_compute. reflexivity. Qed.

Example O09_body_async_disk_NewFileDisk :
  has_body func_bodies "async_disk.NewFileDisk"
    "func(path string, numBlocks uint64) (FileDisk, error)"
    "{ return disk.NewFileDisk(path, numBlocks) }" = true.
Proof. vm_compute. reflexivity. Qed.

Example O09_body_async_disk_NewMemDisk :
  has_body func_bodies "async_disk.NewMemDisk"
    "func(numBlocks uint64) MemDisk"
    "{ return MemDisk(disk.NewMemDisk(numBlocks)) }" = true.
Proof. vm_compute. reflexivity. Qed.

Example O09_const_disk_BlockSize :
  has_body const_decls "disk.BlockSize"
    "uint64"
    "4096" = true.
Proof. vm_compute. reflexivity. Qed.

Example O09_const_async_disk_BlockSize :
  has_body const_decls "async_disk.BlockSize"
    "uint64"
    "disk.BlockSize" = true.
Proof. vm_compute. reflexivity. Qed.

Example O09_type_disk_Block :
  has_body type_decls "disk.Block"
    "alias"
    "[]byte" = true.
Proof. vm_compute. reflexivity. Qed.

Example O09_type_disk_Disk :
  has_body type_decls "disk.Disk"
    "def"
    "interface { Read(a uint64) Block ReadTo(a uint64, b Block) Write(a uint64, v Block) Size() uint64 Barrier() Close() }" = true.
Proof. vm_compute. reflexivity. Qed.

Example O09_type_disk_MemDisk :
  has_body type_decls "disk.MemDisk"
    "def"
    "struct { l *sync.RWMutex blocks [][BlockSize]byte }" = true.
Proof. vm_compute. reflexivity. Qed.

Example O09_type_disk_FileDisk :
  has_body type_decls "disk.FileDisk"
    "def"
    "struct { fd int numBlocks uint64 }" = true.
Proof. vm_compute. reflexivity. Qed.

Example O09_type_async_disk_Block :
  has_body type_decls "async_disk.Block"
    "alias"
    "disk.Block" = true.
Proof. vm_compute. reflexivity. Qed.

Example O09_type_async_disk_Disk :
  has_body type_decls "async_disk.Disk"
    "alias"
    "disk.Disk" = true.
Proof. vm_compute. reflexivity. Qed.

Example O09_type_async_disk_MemDisk :
  has_body type_decls "async_disk.MemDisk"
    "alias"
    "disk.MemDisk" = true.
Proof. vm_compute. reflexivity. Qed.

Example O09_type_async_disk_FileDisk :
  has_body type_decls "async_disk.FileDisk"
    "alias"
    "disk.FileDisk" = true.
Proof. vm_compute. reflexivity. Qed.

Example O09_var_disk_implicitDisk :
  has_body var_decls "disk.implicitDisk"
    "Disk"
    "" = true.
Proof. vm_compute. reflexivity. Qed.
