(* Per-run obligations of C13 on the regenerated skeletons. *)
From Coq Require Import String List Bool.
From GV Require Import Base.Skel Base.Tables Disk.Faults Fs.Posix Conc.LockShape.
From GVGen Require Import GenSkeletons GenBodies.
Import ListNotations.
Open Scope string_scope.

(* DirFs.AtomicCreate has the shape the theorems assume: unique temp name,
   open with O_CREAT|O_TRUNC, write loop consuming all data, fsync(fd),
   renameat(tmp -> path.Join(dir, fname)), every error checked *)
Example O13_dirfs_atomic_create_shape : atomic_create_shape sk_filesys_DirFs_AtomicCreate = true.
Proof. vm_compute. reflexivity. Qed.
(* the unique-name counter is a package-level variable only AtomicCreate touches *)
Example O13_tmp_counter :
  has_body var_decls "filesys.tmpCounter" "uint64" "" = true /\
  forallb (fun kv => if String.eqb (fst kv) "filesys.DirFs.AtomicCreate" then true
                     else negb (existsb (mentions "tmpCounter") (snd kv))) skeletons = true.
Proof. vm_compute. split; reflexivity. Qed.
(* MemFs.AtomicCreate: under the lock (also O14), stores a private copy of the caller's data *)
Example O13_memfs_atomic_create :
  starts_locked "fs.m.Lock" "fs.m.Unlock" "fs.m." sk_filesys_MemFs_AtomicCreate = true /\
  existsb (fun s => match s with SCall ["p"] "make" ["[]byte"; "len(data)"] => true | _ => false end) sk_filesys_MemFs_AtomicCreate = true /\
  existsb (fun s => match s with SCall [] "copy" ["p"; "data"] => true | _ => false end) sk_filesys_MemFs_AtomicCreate = true /\
  existsb (fun s => match s with SAssign ["fs.inodes[inode]"] ["p"] => true | _ => false end) sk_filesys_MemFs_AtomicCreate = true.
Proof. vm_compute. repeat split. Qed.
