(* Per-run obligations O02: the guard sites of the translator (every unsupported/todo/futureWork/nope/noExample call) and the recognisers of builtins, FFI packages and map keys.
   The expected texts below were frozen from the source the models in this
   development were written against (bin/mkoblig.py); coq/gen is regenerated
   from /repo on every run and these Examples are re-checked by the kernel. *)
From Coq Require Import String List Bool.
From GV Require Import Base.Tables.
From GVGen Require Import GenBodies GenInventory GenTables.
Import ListNotations.
Open Scope string_scope.

Example O02_body_goose_Ctx_goBuiltin :
  has_body func_bodies "goose.Ctx.goBuiltin"
    "func(e *ast.Ident) bool"
    "{ s, ok := ctx.info.Uses[e] if !ok { return false } return s.Parent() == types.Universe }" = true.
Proof. vm_compute. reflexivity. Qed.

Example O02_body_goose_isIdent :
  has_body func_bodies "goose.isIdent"
    "func(e ast.Expr, ident string) bool"
    "{ i, ok := getIdent(e) return ok && i == ident }" = true.
Proof. vm_compute. reflexivity. Qed.

Example O02_body_goose_getIdent :
  has_body func_bodies "goose.getIdent"
    "func(e ast.Expr) (ident string, ok bool)"
    "{ if ident, ok := e.(*ast.Ident); ok { return ident.Name, true } return """", false }" = true.
Proof. vm_compute. reflexivity. Qed.

Example O02_body_goose_Ctx_packageMethod :
  has_body func_bodies "goose.Ctx.packageMethod"
    "func(f *ast.SelectorExpr, call *ast.CallExpr) coq.Expr"
    "{ args := call.Args if isIdent(f.X, ""filesys"") { return ctx.newCoqCall(""FS.""+toInitialLower(f.Sel.Name), args) } if isIdent(f.X, ""disk"") { return ctx.newCoqCall(""disk.""+f.Sel.Name, args) } if isIdent(f.X, ""machine"") || isIdent(f.X, ""primitive"") { switch f.Sel.Name { case ""UInt64Get"", ""UInt64Put"", ""UInt32Get"", ""UInt32Put"": return ctx.newCoqCall(f.Sel.Name, args) case ""RandomUint64"": return ctx.newCoqCall(""rand.RandomUint64"", args) case ""UInt64ToString"": return ctx.newCoqCall(""uint64_to_string"", args) case ""Linearize"": return coq.GallinaIdent(""Linearize"") case ""Assume"": return ctx.newCoqCall(""control.impl.Assume"", args) case ""Assert"": return ctx.newCoqCall(""control.impl.Assert"", args) case ""Exit"": return ctx.newCoqCall(""control.impl.Exit"", args) case ""WaitTimeout"": return ctx.newCoqCall(""lock.condWaitTimeout"", args) case ""Sleep"": return ctx.newCoqCall(""time.Sleep"", args) case ""TimeNow"": return ctx.newCoqCall(""time.TimeNow"", args) case ""MapClear"": return ctx.newCoqCall(""MapClear"", args) case ""NewProph"": return ctx.newCoqCall(""NewProph"", args) default: ctx.futureWork(f, ""unhandled call to primitive.%s"", f.Sel.Name) return coq.CallExpr{} } } if isIdent(f.X, ""log"") { switch f.Sel.Name { case ""Print"", ""Printf"", ""Println"": return coq.LoggingStmt{GoCall: ctx.printGo(call)} } } if isIdent(f.X, ""util"") && f.Sel.Name == ""DPrintf"" { return coq.NewCallExpr(coq.GallinaIdent(""util.DPrintf""), ctx.expr(args[0]), ctx.expr(args[1]), coq.UnitLiteral{}) } if isIdent(f.X, ""fmt"") { switch f.Sel.Name { case ""Println"", ""Printf"": return coq.LoggingStmt{GoCall: ctx.printGo(call)} } } if isIdent(f.X, ""sync"") { switch f.Sel.Name { case ""NewCond"": return ctx.newCoqCall(""lock.newCond"", args) } } pkg := f.X.(*ast.Ident) return ctx.newCoqCallTypeArgs( coq.GallinaIdent(coq.PackageIdent{Package: pkg.Name, Ident: f.Sel.Name}.Coq(true)), ctx.typeList(call, ctx.info.Instances[f.Sel].TypeArgs), args) }" = true.
Proof. vm_compute. reflexivity. Qed.

Example O02_body_goose_Ctx_selectorMethod :
  has_body func_bodies "goose.Ctx.selectorMethod"
    "func(f *ast.SelectorExpr, call *ast.CallExpr) coq.Expr"
    "{ args := call.Args selectorType, ok := ctx.getType(f.X) if !ok { return ctx.packageMethod(f, call) } if isLockRef(selectorType) { return ctx.lockMethod(f) } if isCFMutexRef(selectorType) { return ctx.lockMethod(f) } if isCondVar(selectorType) { return ctx.condVarMethod(f) } if isWaitGroup(selectorType) { return ctx.waitGroupMethod(f, args) } if isProphId(selectorType) { return ctx.prophIdMethod(f, args) } if isDisk(selectorType) { method := fmt.Sprintf(""disk.%s"", f.Sel) return ctx.newCoqCall(method, call.Args) } deref := selectorType if pt, ok := selectorType.(*types.Pointer); ok { deref = pt.Elem() } switch deref.Underlying().(type) { case *types.Interface: interfaceInfo, ok := ctx.getInterfaceInfo(selectorType) if ok { callArgs := append([]ast.Expr{f.X}, args...) return ctx.newCoqCall( coq.InterfaceMethodName(interfaceInfo.name, f.Sel.Name), callArgs) } case *types.Struct: structInfo, ok := ctx.getStructInfo(selectorType) if !ok { panic(""expected struct"") } for _, name := range structInfo.fields() { if f.Sel.Name == name { return ctx.newCoqCallWithExpr( ctx.structSelector(structInfo, f), args) } } } namedTy := deref.(*types.Named) tyName := ctx.qualifiedName(namedTy.Obj()) callArgs := append([]ast.Expr{f.X}, args...) fullName := coq.MethodName(tyName, f.Sel.Name) ctx.dep.addDep(fullName) coqCall := ctx.coqRecurFunc(fullName, f.Sel) return ctx.newCoqCallWithExpr(coqCall, callArgs) }" = true.
Proof. vm_compute. reflexivity. Qed.

Example O02_body_goose_supportedMapKey :
  has_body func_bodies "goose.supportedMapKey"
    "func(keyTy types.Type) bool"
    "{ if isString(keyTy) { return true } info, ok := getIntegerType(keyTy) if ok && info.isUint64() { return true } return false }" = true.
Proof. vm_compute. reflexivity. Qed.

Example O02_body_goose_Ctx_mapType :
  has_body func_bodies "goose.Ctx.mapType"
    "func(e *ast.MapType) coq.MapType"
    "{ ty := ctx.typeOf(e).Underlying().(*types.Map) if !supportedMapKey(ty.Key()) { ctx.unsupported(e, ""maps must be from uint64 or string (not %v)"", e.Key) } return coq.MapType{Key: ctx.coqType(e.Key), Value: ctx.coqType(e.Value)} }" = true.
Proof. vm_compute. reflexivity. Qed.

Example O02_body_goose_Ctx_coqTypeOfType :
  has_body func_bodies "goose.Ctx.coqTypeOfType"
    "func(n ast.Node, t types.Type) coq.Type"
    "{ if isProphId(t) { return coq.TypeIdent(""ProphIdT"") } switch t := t.(type) { case *types.Struct: ctx.unsupported(n, ""type for anonymous struct"") case *types.TypeParam: return coq.TypeIdent(t.Obj().Name()) case *types.Basic: switch t.Name() { case ""uint64"": return coq.TypeIdent(""uint64T"") case ""uint32"": return coq.TypeIdent(""uint32T"") case ""byte"": return coq.TypeIdent(""byteT"") case ""bool"": return coq.TypeIdent(""boolT"") case ""string"", ""untyped string"": return coq.TypeIdent(""stringT"") case ""int"": ctx.todo(n, ""basic type int (use uint64)"") default: ctx.unsupported(n, ""basic type %s"", t.Name()) } case *types.Pointer: return coq.PtrType{} case *types.Named: if t.Obj().Pkg() == nil { ctx.unsupported(n, ""unexpected built-in type %v"", t.Obj()) } if t.Obj().Pkg().Name() == ""filesys"" && t.Obj().Name() == ""File"" { return coq.TypeIdent(""fileT"") } if t.Obj().Pkg().Name() == ""disk"" && t.Obj().Name() == ""Disk"" { return coq.TypeIdent(""disk.Disk"") } if info, ok := ctx.getStructInfo(t); ok { ctx.dep.addDep(info.name) return coq.StructName(info.name) } if t.Obj().Pkg().Path() == ctx.pkgPath { ctx.dep.addDep(t.Obj().Name()) } return coq.TypeIdent(ctx.qualifiedName(t.Obj())) case *types.Slice: return coq.SliceType{Value: ctx.coqTypeOfType(n, t.Elem())} case *types.Map: return coq.MapType{Key: ctx.coqTypeOfType(n, t.Key()), Value: ctx.coqTypeOfType(n, t.Elem())} case *types.Signature: ctx.unsupported(n, ""function type"") case *types.Interface: return coq.InterfaceDecl{Name: """"} } ctx.nope(n, ""unknown type %v"", t) return nil }" = true.
Proof. vm_compute. reflexivity. Qed.

Example O02_body_goose_Ctx_coqType :
  has_body func_bodies "goose.Ctx.coqType"
    "func(e ast.Expr) coq.Type"
    "{ switch e := e.(type) { case *ast.Ident: ctx.dep.addDep(e.Name) if ctx.isGlobalVar(e) && !ctx.isStruct(e) { return coq.TypeIdent(e.Name) } return ctx.coqTypeOfType(e, ctx.typeOf(e)) case *ast.MapType: return ctx.mapType(e) case *ast.SelectorExpr: return ctx.selectorExprType(e) case *ast.ArrayType: return ctx.arrayType(e) case *ast.StarExpr: return ctx.ptrType() case *ast.InterfaceType: if isEmptyInterface(e) { return coq.TypeIdent(""anyT"") } else { ctx.unsupported(e, ""non-empty interface"") } case *ast.Ellipsis: return coq.SliceType{Value: ctx.coqType(e.Elt)} case *ast.FuncType: return ctx.coqFuncType(e) case *ast.IndexExpr: ctx.todo(e, ""unsupported generic type instantiation"") default: ctx.unsupported(e, ""unexpected type expr"") } return coq.TypeIdent(""<type>"") }" = true.
Proof. vm_compute. reflexivity. Qed.

Example O02_body_goose_Ctx_returnType :
  has_body func_bodies "goose.Ctx.returnType"
    "func(results *ast.FieldList) coq.Type"
    "{ if results == nil { return coq.TypeIdent(""unitT"") } rs := results.List for _, r := range rs { if len(r.Names) > 0 { ctx.unsupported(r, ""named returned value"") return coq.TypeIdent(""<invalid>"") } } var ts []coq.Type for _, r := range rs { if len(r.Names) > 0 { ctx.unsupported(r, ""named returned value"") return coq.TypeIdent(""<invalid>"") } ts = append(ts, ctx.coqType(r.Type)) } return coq.NewTupleType(ts) }" = true.
Proof. vm_compute. reflexivity. Qed.

Example O02_body_goose_Ctx_goStmt :
  has_body func_bodies "goose.Ctx.goStmt"
    "func(e *ast.GoStmt) coq.Expr"
    "{ if len(e.Call.Args) > 0 { ctx.todo(e, ""go statement with parameters"") } return ctx.spawnExpr(e.Call.Fun) }" = true.
Proof. vm_compute. reflexivity. Qed.

Example O02_body_goose_Ctx_spawnExpr :
  has_body func_bodies "goose.Ctx.spawnExpr"
    "func(thread ast.Expr) coq.SpawnExpr"
    "{ f, ok := thread.(*ast.FuncLit) if !ok { ctx.futureWork(thread, ""only function literal spawns are supported"") return coq.SpawnExpr{} } return coq.SpawnExpr{Body: ctx.blockStmt(f.Body, ExprValLocal)} }" = true.
Proof. vm_compute. reflexivity. Qed.

Example O02_body_goose_Ctx_paramList :
  has_body func_bodies "goose.Ctx.paramList"
    "func(fs *ast.FieldList) []coq.FieldDecl"
    "{ var decls []coq.FieldDecl for _, f := range fs.List { if _, ok := f.Type.(*ast.Ellipsis); ok { ctx.unsupported(f, ""variadic parameter"") } ty := ctx.coqType(f.Type) for _, name := range f.Names { decls = append(decls, coq.FieldDecl{ Name: name.Name, Type: ty, }) } if len(f.Names) == 0 { decls = append(decls, coq.FieldDecl{ Name: """", Type: ty, }) } } return decls }" = true.
Proof. vm_compute. reflexivity. Qed.

Example O02_body_goose_Ctx_field :
  has_body func_bodies "goose.Ctx.field"
    "func(f *ast.Field) coq.FieldDecl"
    "{ if len(f.Names) > 1 { ctx.futureWork(f, ""multiple fields for same type (split them up)"") return coq.FieldDecl{} } if len(f.Names) == 0 { ctx.unsupported(f, ""unnamed field/parameter"") return coq.FieldDecl{} } return coq.FieldDecl{ Name: f.Names[0].Name, Type: ctx.coqType(f.Type), } }" = true.
Proof. vm_compute. reflexivity. Qed.

Example O02_body_goose_Ctx_structFields :
  has_body func_bodies "goose.Ctx.structFields"
    "func(fs *ast.FieldList) []coq.FieldDecl"
    "{ var decls []coq.FieldDecl for _, f := range fs.List { if len(f.Names) > 1 { ctx.futureWork(f, ""multiple fields for same type (split them up)"") return nil } if len(f.Names) == 0 { ctx.unsupported(f, ""unnamed (embedded) field"") return nil } ty := ctx.coqType(f.Type) decls = append(decls, coq.FieldDecl{ Name: f.Names[0].Name, Type: ty, }) } return decls }" = true.
Proof. vm_compute. reflexivity. Qed.

Example O02_body_goose_Ctx_typeDecl :
  has_body func_bodies "goose.Ctx.typeDecl"
    "func(doc *ast.CommentGroup, spec *ast.TypeSpec) coq.Decl"
    "{ if spec.TypeParams != nil { ctx.futureWork(spec, ""generic named type (e.g. no generic structs)"") } switch goTy := spec.Type.(type) { case *ast.StructType: ty := coq.StructDecl{ Name: spec.Name.Name, } addSourceDoc(doc, &ty.Comment) ctx.addSourceFile(spec, &ty.Comment) ty.Fields = ctx.structFields(goTy.Fields) return ty case *ast.InterfaceType: ty := coq.InterfaceDecl{ Name: spec.Name.Name, } addSourceDoc(doc, &ty.Comment) ctx.addSourceFile(spec, &ty.Comment) ty.Methods = ctx.structFields(goTy.Methods) return ty default: if spec.Assign == 0 { return coq.TypeDef{ Name: spec.Name.Name, Type: ctx.coqType(spec.Type), } } else { return coq.AliasDecl{ Name: spec.Name.Name, Type: ctx.coqType(spec.Type), } } } }" = true.
Proof. vm_compute. reflexivity. Qed.

Example O02_body_goose_Ctx_constSpec :
  has_body func_bodies "goose.Ctx.constSpec"
    "func(spec *ast.ValueSpec) coq.ConstDecl"
    "{ if len(spec.Names) > 1 { ctx.unsupported(spec, ""multiple declarations in one spec (split them up)"") } ident := spec.Names[0] if ident.Name == ""_"" { ctx.unsupported(spec, ""constant or variable named _"") } cd := coq.ConstDecl{ Name: ident.Name, AddTypes: ctx.PkgConfig.TypeCheck, } addSourceDoc(spec.Comment, &cd.Comment) if len(spec.Values) == 0 { ctx.unsupported(spec, ""const with no value"") } val := spec.Values[0] cd.Val = ctx.expr(val) if spec.Type == nil { cd.Type = ctx.coqTypeOfType(spec, ctx.typeOf(val)) } else { cd.Type = ctx.coqType(spec.Type) } cd.Val = ctx.expr(spec.Values[0]) return cd }" = true.
Proof. vm_compute. reflexivity. Qed.

Example O02_body_goose_errorReporter_unsupported :
  has_body func_bodies "goose.errorReporter.unsupported"
    "func(n ast.Node, msg string, args ...interface{})"
    "{ r.prefixed(""unsupported"", n, msg, args...) }" = true.
Proof. vm_compute. reflexivity. Qed.

Example O02_body_goose_errorReporter_todo :
  has_body func_bodies "goose.errorReporter.todo"
    "func(n ast.Node, msg string, args ...interface{})"
    "{ r.prefixed(""todo"", n, msg, args...) }" = true.
Proof. vm_compute. reflexivity. Qed.

Example O02_body_goose_errorReporter_futureWork :
  has_body func_bodies "goose.errorReporter.futureWork"
    "func(n ast.Node, msg string, args ...interface{})"
    "{ r.prefixed(""future"", n, msg, args...) }" = true.
Proof. vm_compute. reflexivity. Qed.

Example O02_body_goose_errorReporter_nope :
  has_body func_bodies "goose.errorReporter.nope"
    "func(n ast.Node, msg string, args ...interface{})"
    "{ r.prefixed(""impossible(go)"", n, msg, args...) }" = true.
Proof. vm_compute. reflexivity. Qed.

Example O02_body_goose_errorReporter_noExample :
  has_body func_bodies "goose.errorReporter.noExample"
    "func(n ast.Node, msg string, args ...interface{})"
    "{ r.prefixed(""impossible(no-examples)"", n, msg, args...) }" = true.
Proof. vm_compute. reflexivity. Qed.

Example O02_body_goose_errorReporter_prefixed :
  has_body func_bodies "goose.errorReporter.prefixed"
    "func(prefix string, n ast.Node, msg string, args ...interface{})"
    "{ where := r.fset.Position(n.Pos()) what := r.printGo(n) formatted := fmt.Sprintf(msg, args...) err := &ConversionError{ Category: prefix, Message: formatted, GoCode: what, GooseCaller: getCaller(2), GoSrcFile: where.String(), Pos: n.Pos(), End: n.End(), } panic(gooseError{err: err}) }" = true.
Proof. vm_compute. reflexivity. Qed.

Example O02_inv_guard_sites :
  list_eqb guard_sites [
  "goose.Ctx.field | futureWork | ""multiple fields for same type (split them up)""";
  "goose.Ctx.field | unsupported | ""unnamed field/parameter""";
  "goose.Ctx.paramList | unsupported | ""variadic parameter""";
  "goose.Ctx.typeParamList | unsupported | ""unnamed type parameters""";
  "goose.Ctx.structFields | futureWork | ""multiple fields for same type (split them up)""";
  "goose.Ctx.structFields | unsupported | ""unnamed (embedded) field""";
  "goose.Ctx.typeDecl | futureWork | ""generic named type (e.g. no generic structs)""";
  "goose.Ctx.lenExpr | unsupported | ""length of object of type %v""";
  "goose.Ctx.capExpr | unsupported | ""capacity of object of type %v""";
  "goose.Ctx.lockMethod | nope | ""method %s of sync.Mutex""";
  "goose.Ctx.condVarMethod | unsupported | ""method %s of sync.Cond""";
  "goose.Ctx.waitGroupMethod | unsupported | ""method %s of sync.WaitGroup""";
  "goose.Ctx.prophIdMethod | unsupported | ""method %s of primitive.ProphId""";
  "goose.Ctx.packageMethod | futureWork | ""unhandled call to primitive.%s""";
  "goose.Ctx.methodExpr | unsupported | ""conversion from type %v to string""";
  "goose.Ctx.methodExpr | unsupported | ""recursive call of a generic function at other type arguments""";
  "goose.Ctx.methodExpr | nope | ""double explicit generic type instantiation""";
  "goose.Ctx.methodExpr | nope | ""double explicit generic type instantiation with multiple arguments""";
  "goose.Ctx.methodExpr | unsupported | ""call to unexpected function (of type %T)""";
  "goose.Ctx.makeSliceExpr | unsupported | ""Too many or too few arguments in slice construction""";
  "goose.Ctx.makeExpr | nope | ""can't make() arrays (only slices)""";
  "goose.Ctx.makeExpr | unsupported | ""make type should be slice or map, got %v""";
  "goose.Ctx.integerConversion | todo | ""conversion from untyped int to uint64""";
  "goose.Ctx.integerConversion | unsupported | ""casts from unsupported type %v to uint%d""";
  "goose.Ctx.callExpr | unsupported | ""delete on non-map""";
  "goose.Ctx.callExpr | unsupported | ""call whose arguments are the results of a multi-valued call""";
  "goose.Ctx.selectExpr | unsupported | ""unexpected select expression""";
  "goose.Ctx.compositeLiteral | unsupported | ""slice literal with multiple elements""";
  "goose.Ctx.compositeLiteral | unsupported | ""composite literal of type %v""";
  "goose.Ctx.structLiteral | noExample | ""struct field keyed by non-identifier %+v""";
  "goose.Ctx.structLiteral | unsupported | ""un-keyed struct literal field %v""";
  "goose.Ctx.basicLiteral | unsupported | ""string literals with quotes""";
  "goose.Ctx.basicLiteral | unsupported | ""string literals with newlines""";
  "goose.Ctx.basicLiteral | unsupported | ""int literal used at type %v""";
  "goose.Ctx.basicLiteral | unsupported | ""int literals must be positive numbers""";
  "goose.Ctx.basicLiteral | unsupported | ""literal with kind %s""";
  "goose.Ctx.binExpr | unsupported | ""ordering comparison %v of strings""";
  "goose.Ctx.binExpr | unsupported | ""binary operator %v""";
  "goose.Ctx.sliceExpr | unsupported | ""3-index slice""";
  "goose.Ctx.sliceExpr | unsupported | ""setting the max capacity in a slice expression is not supported""";
  "goose.Ctx.sliceExpr | unsupported | ""slice expression on %v (only slices are supported)""";
  "goose.Ctx.sliceExpr | unsupported | ""complete slice doesn't do anything""";
  "goose.Ctx.nilExpr | unsupported | ""nil of type %v (not pointer or slice)""";
  "goose.Ctx.unaryExpr | unsupported | ""unary expression %s""";
  "goose.Ctx.identExpr | unsupported | ""special identifier""";
  "goose.Ctx.identExpr | unsupported | ""unrecognized kind of identifier; not local variable or global function""";
  "goose.Ctx.indexExpr | unsupported | ""index into unknown type %v""";
  "goose.Ctx.exprSpecial | unsupported | ""type assertion with ok result""";
  "goose.Ctx.exprSpecial | unsupported | ""unexpected expr""";
  "goose.Ctx.ifStmt | unsupported | ""if statement initializations""";
  "goose.Ctx.ifStmt | futureWork | ""early return in if with an else branch""";
  "goose.Ctx.loopVar | unsupported | ""loop initialization must be a single assignment""";
  "goose.Ctx.loopVar | nope | ""initialization must define an identifier""";
  "goose.Ctx.forStmt | unsupported | ""post cannot bind names""";
  "goose.Ctx.mapRangeStmt | nope | ""range with non-ident key""";
  "goose.Ctx.mapRangeStmt | nope | ""range with non-ident value""";
  "goose.Ctx.rangeStmt | unsupported | ""range over %v (only maps and slices are supported)""";
  "goose.Ctx.defineStmt | futureWork | ""multiple defines (split them up)""";
  "goose.Ctx.defineStmt | nope | ""defining a non-identifier""";
  "goose.Ctx.defineStmt | unsupported | ""destructuring more than 4 return values""";
  "goose.Ctx.varSpec | unsupported | ""multiple declarations in one block""";
  "goose.Ctx.varDeclStmt | noExample | ""declaration that is not a GenDecl""";
  "goose.Ctx.varDeclStmt | unsupported | ""non-var declaration for %v""";
  "goose.Ctx.varDeclStmt | unsupported | ""multiple declarations in one var statement""";
  "goose.Ctx.refExpr | unsupported | ""reference to selector from non-struct type %v""";
  "goose.Ctx.refExpr | futureWork | ""reference to other types of expressions""";
  "goose.Ctx.assignFromTo | unsupported | ""variable %s is not assignable\n\t(declare it with 'var' to pointer-wrap in GooseLang and support re-assignment)""";
  "goose.Ctx.assignFromTo | unsupported | ""index update to unexpected target of type %v""";
  "goose.Ctx.assignFromTo | unsupported | ""could not identify element type of assignment through pointer""";
  "goose.Ctx.assignFromTo | unsupported | ""variable %s is not assignable\n\t(declare it with 'var' to pointer-wrap in GooseLang and support re-assignment)""";
  "goose.Ctx.assignFromTo | unsupported | ""assigning to field of non-struct type %v""";
  "goose.Ctx.assignFromTo | unsupported | ""assigning to complex expression""";
  "goose.Ctx.multipleAssignStmt | unsupported | ""multiple assignments on right hand side""";
  "goose.Ctx.multipleAssignStmt | unsupported | ""%v multiple assignment""";
  "goose.Ctx.multipleAssignStmt | unsupported | ""assigning more than 4 return values""";
  "goose.Ctx.assignStmt | unsupported | ""%v assignment""";
  "goose.Ctx.incDecStmt | todo | ""cannot inc/dec non-var""";
  "goose.Ctx.incDecStmt | todo | ""can only inc/dec pointer-wrapped variables""";
  "goose.Ctx.spawnExpr | futureWork | ""only function literal spawns are supported""";
  "goose.Ctx.branchStmt | noExample | ""unexpected control flow %v in loop""";
  "goose.Ctx.goStmt | todo | ""go statement with parameters""";
  "goose.Ctx.stmtInBlock | futureWork | ""return in unsupported position""";
  "goose.Ctx.stmtInBlock | futureWork | ""break/continue in unsupported position""";
  "goose.Ctx.stmtInBlock | todo | ""check for switch statement""";
  "goose.Ctx.stmtInBlock | todo | ""check for type switch statement""";
  "goose.Ctx.stmtInBlock | unsupported | ""select statement""";
  "goose.Ctx.stmtInBlock | unsupported | ""statement""";
  "goose.Ctx.returnType | unsupported | ""named returned value""";
  "goose.Ctx.returnType | unsupported | ""named returned value""";
  "goose.Ctx.funcDecl | unsupported | ""function named _""";
  "goose.Ctx.funcDecl | nope | ""function with multiple receivers""";
  "goose.Ctx.funcDecl | unsupported | ""unexpected function receiver type: %s""";
  "goose.Ctx.funcDecl | unsupported | ""parameter with the name of its function""";
  "goose.Ctx.constSpec | unsupported | ""multiple declarations in one spec (split them up)""";
  "goose.Ctx.constSpec | unsupported | ""constant or variable named _""";
  "goose.Ctx.constSpec | unsupported | ""const with no value""";
  "goose.Ctx.imports | unsupported | ""renaming imports""";
  "goose.Ctx.maybeDecls | unsupported | ""function declaration with no body""";
  "goose.Ctx.maybeDecls | noExample | ""multiple specs in a type decl""";
  "goose.Ctx.maybeDecls | nope | ""unknown token type in decl""";
  "goose.Ctx.maybeDecls | nope | ""bad declaration in type-checked code""";
  "goose.Ctx.maybeDecls | nope | ""top-level decl""";
  "goose.Ctx.getObj | unsupported | ""type checker doesn't have info about this ident""";
  "goose.Ctx.mapType | unsupported | ""maps must be from uint64 or string (not %v)""";
  "goose.Ctx.selectorExprType | unsupported | ""%s without pointer indirection""";
  "goose.Ctx.coqTypeOfType | unsupported | ""type for anonymous struct""";
  "goose.Ctx.coqTypeOfType | todo | ""basic type int (use uint64)""";
  "goose.Ctx.coqTypeOfType | unsupported | ""basic type %s""";
  "goose.Ctx.coqTypeOfType | unsupported | ""unexpected built-in type %v""";
  "goose.Ctx.coqTypeOfType | unsupported | ""function type""";
  "goose.Ctx.coqTypeOfType | nope | ""unknown type %v""";
  "goose.Ctx.coqType | unsupported | ""non-empty interface""";
  "goose.Ctx.coqType | todo | ""unsupported generic type instantiation""";
  "goose.Ctx.coqType | unsupported | ""unexpected type expr"""
] = true.
Proof. vm_compute. reflexivity. Qed.
