(* Per-run obligations O17: cmd/goose/main.go is the code Cli.v mirrors.
   The expected texts below were frozen from the source the models in this
   development were written against (bin/mkoblig.py); coq/gen is regenerated
   from /repo on every run and these Examples are re-checked by the kernel. *)
From Coq Require Import String List Bool.
From GV Require Import Base.Tables.
From GVGen Require Import GenBodies.
Open Scope string_scope.

Example O17_body_goosecmd_coqFileContents :
  has_body func_bodies "goosecmd.coqFileContents"
    "func(f coq.File) []byte"
    "{ var b bytes.Buffer f.Write(&b) return b.Bytes() }" = true.
Proof. vm_compute. reflexivity. Qed.

Example O17_body_goosecmd_main :
  has_body func_bodies "goosecmd.main"
    "func()"
    "{ flag.Usage = func() { fmt.Fprintln(flag.CommandLine.Output(), ""Usage: goose [options] <path to go package>"") flag.PrintDefaults() } var tr goose.TranslationConfig flag.BoolVar(&tr.AddSourceFileComments, ""source-comments"", false, ""add comments indicating Go source code location for each top-level declaration"") flag.BoolVar(&tr.TypeCheck, ""typecheck"", false, ""add type-checking theorems"") flag.BoolVar(&tr.SkipInterfaces, ""skip-interfaces"", false, ""skip creating interface conversions"") var outRootDir string flag.StringVar(&outRootDir, ""out"", ""."", ""root directory for output (default is current directory)"") var modDir string flag.StringVar(&modDir, ""dir"", ""."", ""directory containing necessary go.mod"") var ignoreErrors bool flag.BoolVar(&ignoreErrors, ""ignore-errors"", false, ""output partial translation even if there are errors"") flag.Parse() translate(flag.Args(), outRootDir, modDir, ignoreErrors, tr) }" = true.
Proof. vm_compute. reflexivity. Qed.

Example O17_body_goosecmd_translate :
  has_body func_bodies "goosecmd.translate"
    "func(pkgPatterns []string, outRootDir string, modDir string, ignoreErrors bool, tr goose.TranslationConfig)"
    "{ red := color.New(color.FgRed).SprintFunc() fs, errs, patternError := tr.TranslatePackages(modDir, pkgPatterns...) if patternError != nil { fmt.Fprintln(os.Stderr, red(patternError.Error())) os.Exit(1) } someError := false for i, f := range fs { err := errs[i] if err != nil { fmt.Fprintln(os.Stderr, red(err.Error())) someError = true if !ignoreErrors || f.PkgPath == """" { continue } } outFile := path.Join(outRootDir, coq.ImportToPath(f.PkgPath, f.GoPackage)) outDir := path.Dir(outFile) err = os.MkdirAll(outDir, 0777) if err != nil { fmt.Fprintln(os.Stderr, err.Error()) fmt.Fprintln(os.Stderr, red(""could not create output directory"")) } err = writeFileIfChanged(outFile, coqFileContents(f), 0666) if err != nil { fmt.Fprintln(os.Stderr, err.Error()) fmt.Fprintln(os.Stderr, red(""could not write output"")) os.Exit(1) } } if someError { os.Exit(1) } }" = true.
Proof. vm_compute. reflexivity. Qed.

Example O17_body_goosecmd_writeFileIfChanged :
  has_body func_bodies "goosecmd.writeFileIfChanged"
    "func(name string, data []byte, perm os.FileMode) error"
    "{ contents, err := os.ReadFile(name) if err != nil { return os.WriteFile(name, data, perm) } if bytes.Equal(contents, data) { return nil } return os.WriteFile(name, data, perm) }" = true.
Proof. vm_compute. reflexivity. Qed.
