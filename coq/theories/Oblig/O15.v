(* Per-run obligations of C15 over the regenerated tables: the four machine
   functions still are the plain delegations to encoding/binary.LittleEndian
   that Enc.v models (store/load order of encoding/binary is quoted there). *)
From Coq Require Import String List Bool.
From GV Require Import Base.Tables.
From GVGen Require Import GenBodies.
Open Scope string_scope.

Example O15_put64_delegates :
  has_body func_bodies "machine.UInt64Put" "func(p []byte, n uint64)" "{ binary.LittleEndian.PutUint64(p, n) }" = true.
Proof. vm_compute. reflexivity. Qed.
Example O15_put32_delegates :
  has_body func_bodies "machine.UInt32Put" "func(p []byte, n uint32)" "{ binary.LittleEndian.PutUint32(p, n) }" = true.
Proof. vm_compute. reflexivity. Qed.
Example O15_get64_delegates :
  has_body func_bodies "machine.UInt64Get" "func(p []byte) uint64" "{ return binary.LittleEndian.Uint64(p) }" = true.
Proof. vm_compute. reflexivity. Qed.
Example O15_get32_delegates :
  has_body func_bodies "machine.UInt32Get" "func(p []byte) uint32" "{ return binary.LittleEndian.Uint32(p) }" = true.
Proof. vm_compute. reflexivity. Qed.
Example O15_binary_is_stdlib :
  mem_string "encoding/binary" (match lookup "machine/prims.go" file_imports with Some l => l | None => nil end) = true.
Proof. vm_compute. reflexivity. Qed.
