(* Per-run obligations O04: interface.go Decls/processDecl, the file order, the sites that record names and dependencies, naming.
   The expected texts below were frozen from the source the models in this
   development were written against (bin/mkoblig.py); coq/gen is regenerated
   from /repo on every run and these Examples are re-checked by the kernel. *)
From Coq Require Import String List Bool.
From GV Require Import Base.Tables.
From GVGen Require Import GenBodies GenInventory GenTables.
Import ListNotations.
Open Scope string_scope.

Example O04_body_goose_Ctx_Decls :
  has_body func_bodies "goose.Ctx.Decls"
    "func(fs ...NamedFile) (imports coq.ImportDecls, decls []coq.Decl, errs []error)"
    "{ declGroups := make(map[declId][]coq.Decl) declDeps := make(map[declId][]string) nameDecls := make(map[string]declId) generated := make(map[declId]bool) for fi, f := range fs { for di, d := range f.Ast.Decls { ctx.dep = &depTracker{} id := declId{fi, di} newDecls, err := ctx.declsOrError(d) if err != nil { errs = append(errs, err) } declGroups[id] = newDecls declDeps[id] = ctx.dep.deps for _, n := range ctx.dep.names { nameDecls[n] = id } } } var lastFile int var processDecl func(id declId, ident string) processDecl = func(id declId, ident string) { if generated[id] { return } generated[id] = true for _, dep := range declDeps[id] { depid, ok := nameDecls[dep] if ok { processDecl(depid, dep) } } if lastFile != id.fileIdx && ident != """" { f := fs[id.fileIdx] decls = append(decls, coq.NewComment(fmt.Sprintf(""%s from %s"", ident, f.Name()))) lastFile = id.fileIdx } newDecls, newImports := filterImports(declGroups[id]) decls = append(decls, newDecls...) imports = append(imports, newImports...) } for fi, f := range fs { if len(fs) > 1 { decls = append(decls, coq.NewComment(f.Name())) } if f.Ast.Doc != nil { decls = append(decls, coq.NewComment(f.Ast.Doc.Text())) } lastFile = fi for di := range f.Ast.Decls { processDecl(declId{fi, di}, """") } } return }" = true.
Proof. vm_compute. reflexivity. Qed.

Example O04_body_goose_sortedFiles :
  has_body func_bodies "goose.sortedFiles"
    "func(fileNames []string, fileAsts []*ast.File) []NamedFile"
    "{ var flatFiles []NamedFile if len(fileNames) != len(fileAsts) { fmt.Printf(""names: %+v\n"", fileNames) fmt.Printf(""asts: %+v\n"", fileAsts) panic(""sortedFiles(): fileNames must match fileAsts"") } for i := range fileNames { flatFiles = append(flatFiles, NamedFile{Path: fileNames[i], Ast: fileAsts[i]}) } sort.Slice(flatFiles, func(i, j int) bool { return flatFiles[i].Path < flatFiles[j].Path }) return flatFiles }" = true.
Proof. vm_compute. reflexivity. Qed.

Example O04_body_goose_filterImports :
  has_body func_bodies "goose.filterImports"
    "func(decls []coq.Decl) (nonImports []coq.Decl, imports coq.ImportDecls)"
    "{ for _, d := range decls { switch d := d.(type) { case coq.ImportDecl: imports = append(imports, d) default: nonImports = append(nonImports, d) } } return }" = true.
Proof. vm_compute. reflexivity. Qed.

Example O04_body_goose_depTracker_addName :
  has_body func_bodies "goose.depTracker.addName"
    "func(s string)"
    "{ dt.names = append(dt.names, s) }" = true.
Proof. vm_compute. reflexivity. Qed.

Example O04_body_goose_depTracker_addDep :
  has_body func_bodies "goose.depTracker.addDep"
    "func(s string)"
    "{ dt.deps = append(dt.deps, s) }" = true.
Proof. vm_compute. reflexivity. Qed.

Example O04_body_goose_Ctx_maybeDecls :
  has_body func_bodies "goose.Ctx.maybeDecls"
    "func(d ast.Decl) []coq.Decl"
    "{ switch d := d.(type) { case *ast.FuncDecl: var cvs []coq.Decl if !ctx.SkipInterfaces { if d.Body == nil { ctx.unsupported(d, ""function declaration with no body"") } for _, stmt := range d.Body.List { cvs = ctx.stmtInterface(cvs, stmt) } } fd := ctx.funcDecl(d) var results []coq.Decl if len(cvs) > 0 { results = append(cvs, fd) } else { results = []coq.Decl{fd} } return results case *ast.GenDecl: switch d.Tok { case token.IMPORT: return ctx.imports(d.Specs) case token.CONST: return ctx.constDecl(d) case token.VAR: return ctx.globalVarDecl(d) case token.TYPE: if len(d.Specs) > 1 { ctx.noExample(d, ""multiple specs in a type decl"") } spec := d.Specs[0].(*ast.TypeSpec) ctx.dep.addName(spec.Name.Name) ty := ctx.typeDecl(d.Doc, spec) return []coq.Decl{ty} default: ctx.nope(d, ""unknown token type in decl"") } case *ast.BadDecl: ctx.nope(d, ""bad declaration in type-checked code"") default: ctx.nope(d, ""top-level decl"") } return nil }" = true.
Proof. vm_compute. reflexivity. Qed.

Example O04_body_goose_Ctx_funcDecl :
  has_body func_bodies "goose.Ctx.funcDecl"
    "func(d *ast.FuncDecl) coq.FuncDecl"
    "{ if d.Name.Name == ""_"" { ctx.unsupported(d.Name, ""function named _"") } fd := coq.FuncDecl{Name: d.Name.Name, AddTypes: ctx.PkgConfig.TypeCheck, TypeParams: ctx.typeParamList(d.Type.TypeParams), } addSourceDoc(d.Doc, &fd.Comment) ctx.addSourceFile(d, &fd.Comment) if d.Recv != nil { if len(d.Recv.List) != 1 { ctx.nope(d, ""function with multiple receivers"") } rcvr := d.Recv.List[0] rcvrTy := rcvr.Type if star, ok := rcvrTy.(*ast.StarExpr); ok { rcvrTy = star.X } ident, ok := rcvrTy.(*ast.Ident) if !ok { ctx.unsupported(rcvr, ""unexpected function receiver type: %s"", ctx.printGo(rcvrTy)) } fd.Name = coq.MethodName(ident.Name, d.Name.Name) fd.Args = append(fd.Args, ctx.field(rcvr)) } fd.Args = append(fd.Args, ctx.paramList(d.Type.Params)...) for _, arg := range fd.Args { if arg.Name == fd.Name { ctx.unsupported(d.Name, ""parameter with the name of its function"") } } fd.ReturnType = ctx.returnType(d.Type.Results) fd.Body = ctx.blockStmt(d.Body, ExprValReturned) ctx.dep.addName(fd.Name) return fd }" = true.
Proof. vm_compute. reflexivity. Qed.

Example O04_body_goose_Ctx_constDecl :
  has_body func_bodies "goose.Ctx.constDecl"
    "func(d *ast.GenDecl) []coq.Decl"
    "{ var specs []coq.Decl for _, spec := range d.Specs { vs := spec.(*ast.ValueSpec) ctx.dep.addName(vs.Names[0].Name) specs = append(specs, ctx.constSpec(vs)) } return specs }" = true.
Proof. vm_compute. reflexivity. Qed.

Example O04_body_goose_Ctx_globalVarDecl :
  has_body func_bodies "goose.Ctx.globalVarDecl"
    "func(d *ast.GenDecl) []coq.Decl"
    "{ var specs []coq.Decl for _, spec := range d.Specs { vs := spec.(*ast.ValueSpec) ctx.dep.addName(vs.Names[0].Name) specs = append(specs, ctx.constSpec(vs)) } return specs }" = true.
Proof. vm_compute. reflexivity. Qed.

Example O04_body_goose_Ctx_typeDecl :
  has_body func_bodies "goose.Ctx.typeDecl"
    "func(doc *ast.CommentGroup, spec *ast.TypeSpec) coq.Decl"
    "{ if spec.TypeParams != nil { ctx.futureWork(spec, ""generic named type (e.g. no generic structs)"") } switch goTy := spec.Type.(type) { case *ast.StructType: ty := coq.StructDecl{ Name: spec.Name.Name, } addSourceDoc(doc, &ty.Comment) ctx.addSourceFile(spec, &ty.Comment) ty.Fields = ctx.structFields(goTy.Fields) return ty case *ast.InterfaceType: ty := coq.InterfaceDecl{ Name: spec.Name.Name, } addSourceDoc(doc, &ty.Comment) ctx.addSourceFile(spec, &ty.Comment) ty.Methods = ctx.structFields(goTy.Methods) return ty default: if spec.Assign == 0 { return coq.TypeDef{ Name: spec.Name.Name, Type: ctx.coqType(spec.Type), } } else { return coq.AliasDecl{ Name: spec.Name.Name, Type: ctx.coqType(spec.Type), } } } }" = true.
Proof. vm_compute. reflexivity. Qed.

Example O04_body_goose_Ctx_coqRecurFunc :
  has_body func_bodies "goose.Ctx.coqRecurFunc"
    "func(fullFuncName string, e *ast.Ident) coq.Expr"
    "{ obj, ok := ctx.info.Uses[e] if !ok { panic(""type checker doesn't have func"") } if ctx.pkgPath != obj.Pkg().Path() { return coq.GallinaIdent(fullFuncName) } fun := obj.(*types.Func) if fun.Scope().Contains(e.Pos()) { return coq.GallinaString(fullFuncName) } else { return coq.GallinaIdent(fullFuncName) } }" = true.
Proof. vm_compute. reflexivity. Qed.

Example O04_body_goose_Ctx_function :
  has_body func_bodies "goose.Ctx.function"
    "func(s *ast.Ident) coq.Expr"
    "{ ctx.dep.addDep(s.Name) return ctx.coqRecurFunc(s.Name, s) }" = true.
Proof. vm_compute. reflexivity. Qed.

Example O04_body_goose_Ctx_variable :
  has_body func_bodies "goose.Ctx.variable"
    "func(s *ast.Ident) coq.Expr"
    "{ if ctx.isGlobalVar(s) { ctx.dep.addDep(s.Name) return coq.GallinaIdent(s.Name) } e := coq.IdentExpr(s.Name) if ctx.isPtrWrapped(s) { return coq.DerefExpr{X: e, Ty: ctx.coqTypeOfType(s, ctx.typeOf(s))} } return e }" = true.
Proof. vm_compute. reflexivity. Qed.

Example O04_body_goose_Ctx_structSelector :
  has_body func_bodies "goose.Ctx.structSelector"
    "func(info structTypeInfo, e *ast.SelectorExpr) coq.StructFieldAccessExpr"
    "{ ctx.dep.addDep(info.name) return coq.StructFieldAccessExpr{ Struct: info.name, Field: e.Sel.Name, X: ctx.expr(e.X), ThroughPointer: info.throughPointer, } }" = true.
Proof. vm_compute. reflexivity. Qed.

Example O04_body_goose_Ctx_structLiteral :
  has_body func_bodies "goose.Ctx.structLiteral"
    "func(info structTypeInfo, e *ast.CompositeLit) coq.StructLiteral"
    "{ ctx.dep.addDep(info.name) lit := coq.NewStructLiteral(info.name) for _, el := range e.Elts { switch el := el.(type) { case *ast.KeyValueExpr: ident, ok := getIdent(el.Key) if !ok { ctx.noExample(el.Key, ""struct field keyed by non-identifier %+v"", el.Key) return coq.StructLiteral{} } lit.AddField(ident, ctx.expr(el.Value)) default: ctx.unsupported(e, ""un-keyed struct literal field %v"", ctx.printGo(el)) } } return lit }" = true.
Proof. vm_compute. reflexivity. Qed.

Example O04_body_goose_Ctx_selectorMethod :
  has_body func_bodies "goose.Ctx.selectorMethod"
    "func(f *ast.SelectorExpr, call *ast.CallExpr) coq.Expr"
    "{ args := call.Args selectorType, ok := ctx.getType(f.X) if !ok { return ctx.packageMethod(f, call) } if isLockRef(selectorType) { return ctx.lockMethod(f) } if isCFMutexRef(selectorType) { return ctx.lockMethod(f) } if isCondVar(selectorType) { return ctx.condVarMethod(f) } if isWaitGroup(selectorType) { return ctx.waitGroupMethod(f, args) } if isProphId(selectorType) { return ctx.prophIdMethod(f, args) } if isDisk(selectorType) { method := fmt.Sprintf(""disk.%s"", f.Sel) return ctx.newCoqCall(method, call.Args) } deref := selectorType if pt, ok := selectorType.(*types.Pointer); ok { deref = pt.Elem() } switch deref.Underlying().(type) { case *types.Interface: interfaceInfo, ok := ctx.getInterfaceInfo(selectorType) if ok { callArgs := append([]ast.Expr{f.X}, args...) return ctx.newCoqCall( coq.InterfaceMethodName(interfaceInfo.name, f.Sel.Name), callArgs) } case *types.Struct: structInfo, ok := ctx.getStructInfo(selectorType) if !ok { panic(""expected struct"") } for _, name := range structInfo.fields() { if f.Sel.Name == name { return ctx.newCoqCallWithExpr( ctx.structSelector(structInfo, f), args) } } } namedTy := deref.(*types.Named) tyName := ctx.qualifiedName(namedTy.Obj()) callArgs := append([]ast.Expr{f.X}, args...) fullName := coq.MethodName(tyName, f.Sel.Name) ctx.dep.addDep(fullName) coqCall := ctx.coqRecurFunc(fullName, f.Sel) return ctx.newCoqCallWithExpr(coqCall, callArgs) }" = true.
Proof. vm_compute. reflexivity. Qed.

Example O04_body_goose_Ctx_selectExpr :
  has_body func_bodies "goose.Ctx.selectExpr"
    "func(e *ast.SelectorExpr) coq.Expr"
    "{ selectorType, ok := ctx.getType(e.X) if !ok { if isIdent(e.X, ""filesys"") { return coq.GallinaIdent(""FS."" + e.Sel.Name) } if isIdent(e.X, ""disk"") { return coq.GallinaIdent(""disk."" + e.Sel.Name) } if pkg, ok := getIdent(e.X); ok { return coq.PackageIdent{ Package: pkg, Ident: e.Sel.Name, } } } structInfo, ok := ctx.getStructInfo(selectorType) _, isFuncType := (ctx.typeOf(e)).(*types.Signature) if isFuncType { m := coq.MethodName(structInfo.name, e.Sel.Name) ctx.dep.addDep(m) return coq.NewCallExpr(coq.GallinaIdent(m), ctx.expr(e.X)) } if ok { return ctx.structSelector(structInfo, e) } ctx.unsupported(e, ""unexpected select expression"") return nil }" = true.
Proof. vm_compute. reflexivity. Qed.

Example O04_body_goose_Ctx_coqType :
  has_body func_bodies "goose.Ctx.coqType"
    "func(e ast.Expr) coq.Type"
    "{ switch e := e.(type) { case *ast.Ident: ctx.dep.addDep(e.Name) if ctx.isGlobalVar(e) && !ctx.isStruct(e) { return coq.TypeIdent(e.Name) } return ctx.coqTypeOfType(e, ctx.typeOf(e)) case *ast.MapType: return ctx.mapType(e) case *ast.SelectorExpr: return ctx.selectorExprType(e) case *ast.ArrayType: return ctx.arrayType(e) case *ast.StarExpr: return ctx.ptrType() case *ast.InterfaceType: if isEmptyInterface(e) { return coq.TypeIdent(""anyT"") } else { ctx.unsupported(e, ""non-empty interface"") } case *ast.Ellipsis: return coq.SliceType{Value: ctx.coqType(e.Elt)} case *ast.FuncType: return ctx.coqFuncType(e) case *ast.IndexExpr: ctx.todo(e, ""unsupported generic type instantiation"") default: ctx.unsupported(e, ""unexpected type expr"") } return coq.TypeIdent(""<type>"") }" = true.
Proof. vm_compute. reflexivity. Qed.

Example O04_body_goose_Ctx_coqTypeOfType :
  has_body func_bodies "goose.Ctx.coqTypeOfType"
    "func(n ast.Node, t types.Type) coq.Type"
    "{ if isProphId(t) { return coq.TypeIdent(""ProphIdT"") } switch t := t.(type) { case *types.Struct: ctx.unsupported(n, ""type for anonymous struct"") case *types.TypeParam: return coq.TypeIdent(t.Obj().Name()) case *types.Basic: switch t.Name() { case ""uint64"": return coq.TypeIdent(""uint64T"") case ""uint32"": return coq.TypeIdent(""uint32T"") case ""byte"": return coq.TypeIdent(""byteT"") case ""bool"": return coq.TypeIdent(""boolT"") case ""string"", ""untyped string"": return coq.TypeIdent(""stringT"") case ""int"": ctx.todo(n, ""basic type int (use uint64)"") default: ctx.unsupported(n, ""basic type %s"", t.Name()) } case *types.Pointer: return coq.PtrType{} case *types.Named: if t.Obj().Pkg() == nil { ctx.unsupported(n, ""unexpected built-in type %v"", t.Obj()) } if t.Obj().Pkg().Name() == ""filesys"" && t.Obj().Name() == ""File"" { return coq.TypeIdent(""fileT"") } if t.Obj().Pkg().Name() == ""disk"" && t.Obj().Name() == ""Disk"" { return coq.TypeIdent(""disk.Disk"") } if info, ok := ctx.getStructInfo(t); ok { ctx.dep.addDep(info.name) return coq.StructName(info.name) } if t.Obj().Pkg().Path() == ctx.pkgPath { ctx.dep.addDep(t.Obj().Name()) } return coq.TypeIdent(ctx.qualifiedName(t.Obj())) case *types.Slice: return coq.SliceType{Value: ctx.coqTypeOfType(n, t.Elem())} case *types.Map: return coq.MapType{Key: ctx.coqTypeOfType(n, t.Key()), Value: ctx.coqTypeOfType(n, t.Elem())} case *types.Signature: ctx.unsupported(n, ""function type"") case *types.Interface: return coq.InterfaceDecl{Name: """"} } ctx.nope(n, ""unknown type %v"", t) return nil }" = true.
Proof. vm_compute. reflexivity. Qed.

Example O04_body_coq_MethodName :
  has_body func_bodies "coq.MethodName"
    "func(tyName string, funcName string) string"
    "{ return fmt.Sprintf(""%s__%s"", tyName, funcName) }" = true.
Proof. vm_compute. reflexivity. Qed.

Example O04_body_coq_File_Write :
  has_body func_bodies "coq.File.Write"
    "func(w io.Writer)"
    "{ fmt.Fprintln(w, f.autogeneratedNotice().CoqDecl()) fmt.Fprintln(w, strings.Trim(importHeader, ""\n"")) fmt.Fprintln(w, f.Imports.PrintImports()) if len(f.Imports) > 0 { fmt.Fprintln(w) } fmt.Fprintln(w, f.ImportHeader) fmt.Fprintln(w) decls := make(map[string]bool) for i, d := range f.Decls { decl := d.CoqDecl() _, isComment := d.(CommentDecl) if isComment || !decls[decl] { fmt.Fprintln(w, decl) decls[decl] = true if i != len(f.Decls)-1 { fmt.Fprintln(w) } } } fmt.Fprint(w, f.Footer) }" = true.
Proof. vm_compute. reflexivity. Qed.

Example O04_body_goose_TranslationConfig_translatePackage :
  has_body func_bodies "goose.TranslationConfig.translatePackage"
    "func(pkg *packages.Package) (coq.File, error)"
    "{ if len(pkg.Errors) > 0 { return coq.File{}, errors.Errorf( ""could not load package %v:\n%v"", pkg.PkgPath, pkgErrors(pkg.Errors)) } if ffis := ffisUsed(pkg); len(ffis) > 1 { return coq.File{}, errors.Errorf( ""could not translate package %v: multiple ffis used %v"", pkg.PkgPath, ffis) } ctx := NewPkgCtx(pkg, tr) files := sortedFiles(pkg.CompiledGoFiles, pkg.Syntax) coqFile := coq.File{ PkgPath: pkg.PkgPath, GoPackage: pkg.Name, } coqFile.ImportHeader, coqFile.Footer = ffiHeaderFooter(ctx.PkgConfig.Ffi) imports, decls, errs := ctx.Decls(files...) coqFile.Imports = imports coqFile.Decls = decls if len(errs) != 0 { return coqFile, errors.Wrap(MultipleErrors(errs), ""conversion failed"") } return coqFile, nil }" = true.
Proof. vm_compute. reflexivity. Qed.

Example O04_inv_dep_sites :
  list_eqb dep_sites [
  "goose.Ctx.selectorMethod | addDep | fullName";
  "goose.Ctx.selectExpr | addDep | m";
  "goose.Ctx.structSelector | addDep | info.name";
  "goose.Ctx.structLiteral | addDep | info.name";
  "goose.Ctx.variable | addDep | s.Name";
  "goose.Ctx.function | addDep | s.Name";
  "goose.Ctx.derefExpr | addDep | info.name";
  "goose.Ctx.refExpr | addDep | info.name";
  "goose.Ctx.assignFromTo | addDep | info.name";
  "goose.Ctx.assignFromTo | addDep | info.name";
  "goose.Ctx.funcDecl | addName | fd.Name";
  "goose.Ctx.constDecl | addName | vs.Names[0].Name";
  "goose.Ctx.globalVarDecl | addName | vs.Names[0].Name";
  "goose.Ctx.maybeDecls | addName | spec.Name.Name";
  "goose.Ctx.coqTypeOfType | addDep | info.name";
  "goose.Ctx.coqTypeOfType | addDep | t.Obj().Name()";
  "goose.Ctx.coqType | addDep | e.Name"
] = true.
Proof. vm_compute. reflexivity. Qed.
