(* Per-run obligations O06: TranslatePackages and its goroutine (what it assigns), the ranges, go statements and package-level variables of the translator, file order and import printing.
   The expected texts below were frozen from the source the models in this
   development were written against (bin/mkoblig.py); coq/gen is regenerated
   from /repo on every run and these Examples are re-checked by the kernel. *)
From Coq Require Import String List Bool.
From GV Require Import Base.Tables.
From GVGen Require Import GenBodies GenInventory GenTables.
Import ListNotations.
Open Scope string_scope.

Example O06_body_goose_TranslationConfig_TranslatePackages :
  has_body func_bodies "goose.TranslationConfig.TranslatePackages"
    "func(modDir string, pkgPattern ...string) (files []coq.File, errs []error, patternErr error)"
    "{ pkgs, err := packages.Load(newPackageConfig(modDir), pkgPattern...) if err != nil { return nil, nil, err } if len(pkgs) == 0 { return nil, nil, errors.New(""patterns matched no packages"") } files = make([]coq.File, len(pkgs)) errs = make([]error, len(pkgs)) var wg sync.WaitGroup wg.Add(len(pkgs)) for i, pkg := range pkgs { go func(i int, pkg *packages.Package) { f, err := tr.translatePackage(pkg) files[i] = f errs[i] = err wg.Done() }(i, pkg) } wg.Wait() return }" = true.
Proof. vm_compute. reflexivity. Qed.

Example O06_body_goose_TranslationConfig_translatePackage :
  has_body func_bodies "goose.TranslationConfig.translatePackage"
    "func(pkg *packages.Package) (coq.File, error)"
    "{ if len(pkg.Errors) > 0 { return coq.File{}, errors.Errorf( ""could not load package %v:\n%v"", pkg.PkgPath, pkgErrors(pkg.Errors)) } if ffis := ffisUsed(pkg); len(ffis) > 1 { return coq.File{}, errors.Errorf( ""could not translate package %v: multiple ffis used %v"", pkg.PkgPath, ffis) } ctx := NewPkgCtx(pkg, tr) files := sortedFiles(pkg.CompiledGoFiles, pkg.Syntax) coqFile := coq.File{ PkgPath: pkg.PkgPath, GoPackage: pkg.Name, } coqFile.ImportHeader, coqFile.Footer = ffiHeaderFooter(ctx.PkgConfig.Ffi) imports, decls, errs := ctx.Decls(files...) coqFile.Imports = imports coqFile.Decls = decls if len(errs) != 0 { return coqFile, errors.Wrap(MultipleErrors(errs), ""conversion failed"") } return coqFile, nil }" = true.
Proof. vm_compute. reflexivity. Qed.

Example O06_body_goose_sortedFiles :
  has_body func_bodies "goose.sortedFiles"
    "func(fileNames []string, fileAsts []*ast.File) []NamedFile"
    "{ var flatFiles []NamedFile if len(fileNames) != len(fileAsts) { fmt.Printf(""names: %+v\n"", fileNames) fmt.Printf(""asts: %+v\n"", fileAsts) panic(""sortedFiles(): fileNames must match fileAsts"") } for i := range fileNames { flatFiles = append(flatFiles, NamedFile{Path: fileNames[i], Ast: fileAsts[i]}) } sort.Slice(flatFiles, func(i, j int) bool { return flatFiles[i].Path < flatFiles[j].Path }) return flatFiles }" = true.
Proof. vm_compute. reflexivity. Qed.

Example O06_body_goose_newPackageConfig :
  has_body func_bodies "goose.newPackageConfig"
    "func(modDir string) *packages.Config"
    "{ mode := packages.NeedName | packages.NeedCompiledGoFiles mode |= packages.NeedImports mode |= packages.NeedTypes | packages.NeedSyntax | packages.NeedTypesInfo return &packages.Config{ Dir: modDir, Mode: mode, BuildFlags: []string{""-tags"", ""goose""}, Fset: token.NewFileSet(), } }" = true.
Proof. vm_compute. reflexivity. Qed.

Example O06_body_goose_NewPkgCtx :
  has_body func_bodies "goose.NewPkgCtx"
    "func(pkg *packages.Package, tr TranslationConfig) Ctx"
    "{ config := PkgConfig{ TranslationConfig: tr, Ffi: getFfi(pkg), } return Ctx{ idents: newIdentCtx(), info: pkg.TypesInfo, Fset: pkg.Fset, pkgPath: pkg.PkgPath, errorReporter: newErrorReporter(pkg.Fset), PkgConfig: config, } }" = true.
Proof. vm_compute. reflexivity. Qed.

Example O06_body_goose_NewCtx :
  has_body func_bodies "goose.NewCtx"
    "func(pkgPath string, conf PkgConfig) Ctx"
    "{ info := &types.Info{ Defs: make(map[*ast.Ident]types.Object), Uses: make(map[*ast.Ident]types.Object), Instances: make(map[*ast.Ident]types.Instance), Types: make(map[ast.Expr]types.TypeAndValue), Scopes: make(map[ast.Node]*types.Scope), } fset := token.NewFileSet() return Ctx{ idents: newIdentCtx(), info: info, Fset: fset, pkgPath: pkgPath, errorReporter: newErrorReporter(fset), PkgConfig: conf, } }" = true.
Proof. vm_compute. reflexivity. Qed.

Example O06_body_goose_getFfi :
  has_body func_bodies "goose.getFfi"
    "func(pkg *packages.Package) string"
    "{ seenFfis := ffisUsed(pkg) if len(seenFfis) > 1 { panic(fmt.Sprintf(""multiple ffis used %v"", seenFfis)) } for ffi := range seenFfis { return ffi } return ""none"" }" = true.
Proof. vm_compute. reflexivity. Qed.

Example O06_body_goose_ffisUsed :
  has_body func_bodies "goose.ffisUsed"
    "func(pkg *packages.Package) map[string]struct{}"
    "{ seenFfis := make(map[string]struct{}) packages.Visit([]*packages.Package{pkg}, func(pkg *packages.Package) bool { if _, ok := ffiMapping[pkg.PkgPath]; ok { return false } return true }, func(pkg *packages.Package) { if ffi, ok := ffiMapping[pkg.PkgPath]; ok { seenFfis[ffi] = struct{}{} } }, ) return seenFfis }" = true.
Proof. vm_compute. reflexivity. Qed.

Example O06_body_coq_ImportDecls_PrintImports :
  has_body func_bodies "coq.ImportDecls.PrintImports"
    "func() string"
    "{ seen := make(map[string]bool) var ss []string for _, decl := range decls { coqdecl := decl.CoqDecl() if !seen[coqdecl] { ss = append(ss, coqdecl) seen[coqdecl] = true } } sort.Strings(ss) return strings.Join(ss, ""\n"") }" = true.
Proof. vm_compute. reflexivity. Qed.

Example O06_body_goose_Ctx_Decls :
  has_body func_bodies "goose.Ctx.Decls"
    "func(fs ...NamedFile) (imports coq.ImportDecls, decls []coq.Decl, errs []error)"
    "{ declGroups := make(map[declId][]coq.Decl) declDeps := make(map[declId][]string) nameDecls := make(map[string]declId) generated := make(map[declId]bool) for fi, f := range fs { for di, d := range f.Ast.Decls { ctx.dep = &depTracker{} id := declId{fi, di} newDecls, err := ctx.declsOrError(d) if err != nil { errs = append(errs, err) } declGroups[id] = newDecls declDeps[id] = ctx.dep.deps for _, n := range ctx.dep.names { nameDecls[n] = id } } } var lastFile int var processDecl func(id declId, ident string) processDecl = func(id declId, ident string) { if generated[id] { return } generated[id] = true for _, dep := range declDeps[id] { depid, ok := nameDecls[dep] if ok { processDecl(depid, dep) } } if lastFile != id.fileIdx && ident != """" { f := fs[id.fileIdx] decls = append(decls, coq.NewComment(fmt.Sprintf(""%s from %s"", ident, f.Name()))) lastFile = id.fileIdx } newDecls, newImports := filterImports(declGroups[id]) decls = append(decls, newDecls...) imports = append(imports, newImports...) } for fi, f := range fs { if len(fs) > 1 { decls = append(decls, coq.NewComment(f.Name())) } if f.Ast.Doc != nil { decls = append(decls, coq.NewComment(f.Ast.Doc.Text())) } lastFile = fi for di := range f.Ast.Decls { processDecl(declId{fi, di}, """") } } return }" = true.
Proof. vm_compute. reflexivity. Qed.

Example O06_body_coq_File_Write :
  has_body func_bodies "coq.File.Write"
    "func(w io.Writer)"
    "{ fmt.Fprintln(w, f.autogeneratedNotice().CoqDecl()) fmt.Fprintln(w, strings.Trim(importHeader, ""\n"")) fmt.Fprintln(w, f.Imports.PrintImports()) if len(f.Imports) > 0 { fmt.Fprintln(w) } fmt.Fprintln(w, f.ImportHeader) fmt.Fprintln(w) decls := make(map[string]bool) for i, d := range f.Decls { decl := d.CoqDecl() _, isComment := d.(CommentDecl) if isComment || !decls[decl] { fmt.Fprintln(w, decl) decls[decl] = true if i != len(f.Decls)-1 { fmt.Fprintln(w) } } } fmt.Fprint(w, f.Footer) }" = true.
Proof. vm_compute. reflexivity. Qed.

Example O06_body_goosecmd_translate :
  has_body func_bodies "goosecmd.translate"
    "func(pkgPatterns []string, outRootDir string, modDir string, ignoreErrors bool, tr goose.TranslationConfig)"
    "{ red := color.New(color.FgRed).SprintFunc() fs, errs, patternError := tr.TranslatePackages(modDir, pkgPatterns...) if patternError != nil { fmt.Fprintln(os.Stderr, red(patternError.Error())) os.Exit(1) } someError := false for i, f := range fs { err := errs[i] if err != nil { fmt.Fprintln(os.Stderr, red(err.Error())) someError = true if !ignoreErrors || f.PkgPath == """" { continue } } outFile := path.Join(outRootDir, coq.ImportToPath(f.PkgPath, f.GoPackage)) outDir := path.Dir(outFile) err = os.MkdirAll(outDir, 0777) if err != nil { fmt.Fprintln(os.Stderr, err.Error()) fmt.Fprintln(os.Stderr, red(""could not create output directory"")) } err = writeFileIfChanged(outFile, coqFileContents(f), 0666) if err != nil { fmt.Fprintln(os.Stderr, err.Error()) fmt.Fprintln(os.Stderr, red(""could not write output"")) os.Exit(1) } } if someError { os.Exit(1) } }" = true.
Proof. vm_compute. reflexivity. Qed.

Example O06_inv_go_sites :
  list_eqb go_sites [
  "goose.TranslationConfig.TranslatePackages | func(i int, pkg *packages.Package) { f, err := tr.translateP"
] = true.
Proof. vm_compute. reflexivity. Qed.

Example O06_inv_go_writes :
  list_eqb go_writes [
  "goose.TranslationConfig.TranslatePackages | func(i int, pkg *packages.Package) | f, err := | files[i] = | errs[i] ="
] = true.
Proof. vm_compute. reflexivity. Qed.

Example O06_inv_range_sites :
  list_eqb range_sites [
  "goose.getFfi | seenFfis";
  "goose.Ctx.paramList | fs.List";
  "goose.Ctx.paramList | f.Names";
  "goose.Ctx.typeParamList | fs.List";
  "goose.Ctx.typeParamList | f.Names";
  "goose.Ctx.structFields | fs.List";
  "goose.Ctx.selectorMethod | structInfo.fields()";
  "goose.Ctx.newCoqCallTypeArgs | es";
  "goose.Ctx.callExpr | s.Args";
  "goose.Ctx.structLiteral | e.Elts";
  "goose.Ctx.defineStmt | s.Lhs";
  "goose.Ctx.defineStmt | idents";
  "goose.Ctx.multipleAssignStmt | names";
  "goose.Ctx.returnExpr | es";
  "goose.Ctx.returnType | rs";
  "goose.Ctx.returnType | rs";
  "goose.Ctx.funcDecl | fd.Args";
  "goose.Ctx.constDecl | d.Specs";
  "goose.Ctx.globalVarDecl | d.Specs";
  "goose.Ctx.imports | d";
  "goose.Ctx.stmtInterface | f.Results";
  "goose.Ctx.callExprInterface | r.Args";
  "goose.Ctx.maybeDecls | d.Body.List";
  "goose.filterImports | decls";
  "goose.Ctx.Decls | fs";
  "goose.Ctx.Decls | f.Ast.Decls";
  "goose.Ctx.Decls | ctx.dep.names";
  "goose.Ctx.Decls | declDeps[id]";
  "goose.Ctx.Decls | fs";
  "goose.Ctx.Decls | f.Ast.Decls";
  "goose.MultipleErrors.Error | es";
  "goose.sortedFiles | fileNames";
  "goose.pkgErrors | errors";
  "goose.TranslationConfig.TranslatePackages | pkgs";
  "goose.errorReporter.printField | f.Names";
  "goose.errorReporter.printGo | fl.List";
  "goose.Ctx.coqFuncType | args";
  "coq.buffer.indentation | b";
  "coq.indent | lines";
  "coq.StructDecl.CoqDecl | d.Fields";
  "coq.InterfaceDecl.CoqDecl | d.Methods";
  "coq.InterfaceDecl.Coq | d.Methods";
  "coq.StructToInterface.Coq | d.Methods";
  "coq.StructToInterface.CoqDecl | d.Methods";
  "coq.ArrowType.Coq | t.ArgTypes";
  "coq.CallExpr.Coq | s.TypeArgs";
  "coq.CallExpr.Coq | s.Args";
  "coq.StructLiteral.Coq | sl.elts";
  "coq.TupleExpr.Coq | te";
  "coq.BlockExpr.Coq | be.Bindings";
  "coq.FuncLit.Coq | e.Args";
  "coq.FuncDecl.Signature | d.Args";
  "coq.FuncDecl.Type | d.Args";
  "coq.FuncDecl.CoqDecl | d.TypeParams";
  "coq.TupleType.Coq | tt";
  "coq.ImportDecls.PrintImports | decls";
  "coq.File.Write | f.Decls";
  "goosecmd.translate | fs"
] = true.
Proof. vm_compute. reflexivity. Qed.

Example O06_inv_pkg_vars :
  list_eqb pkg_vars [
  "goose.go | builtinImports";
  "goose.go | ffiMapping";
  "internal/coq/coq.go | Skip";
  "internal/coq/coq.go | False";
  "internal/coq/coq.go | True";
  "internal/coq/coq.go | Tt";
  "internal/coq/coq.go | Null";
  "internal/coq/coq.go | LoopContinue";
  "internal/coq/coq.go | LoopBreak"
] = true.
Proof. vm_compute. reflexivity. Qed.
