(* Per-run obligations O12: machine/filesys is the code Fs.v mirrors (MemFs) and the wrappers delegate.
   The expected texts below were frozen from the source the models in this
   development were written against (bin/mkoblig.py); coq/gen is regenerated
   from /repo on every run and these Examples are re-checked by the kernel. *)
From Coq Require Import String List Bool.
From GV Require Import Base.Tables.
From GVGen Require Import GenBodies.
Open Scope string_scope.

Example O12_body_filesys_MemFs_Append :
  has_body func_bodies "filesys.MemFs.Append"
    "func(f File, data []byte)"
    "{ fs.m.Lock() defer fs.m.Unlock() inode := fs.checkMode(f, appendMode) fs.inodes[inode] = append(fs.inodes[inode], data...) }" = true.
Proof. vm_compute. reflexivity. Qed.

Example O12_body_filesys_MemFs_AtomicCreate :
  has_body func_bodies "filesys.MemFs.AtomicCreate"
    "func(dir, fname string, data []byte)"
    "{ fs.m.Lock() defer fs.m.Unlock() fs.checkDir(dir) inode := fs.nextInode() p := make([]byte, len(data)) copy(p, data) fs.inodes[inode] = p fs.dirents[mkpath(dir, fname)] = inode }" = true.
Proof. vm_compute. reflexivity. Qed.

Example O12_body_filesys_MemFs_Close :
  has_body func_bodies "filesys.MemFs.Close"
    "func(f File)"
    "{ fs.m.Lock() defer fs.m.Unlock() if _, ok := fs.openFiles[f.fd()]; !ok { panic(fmt.Errorf(""close of unopened fd %d"", f.fd())) } delete(fs.openFiles, f.fd()) }" = true.
Proof. vm_compute. reflexivity. Qed.

Example O12_body_filesys_MemFs_Create :
  has_body func_bodies "filesys.MemFs.Create"
    "func(dir, fname string) (f File, ok bool)"
    "{ fs.m.Lock() defer fs.m.Unlock() fs.checkDir(dir) p := mkpath(dir, fname) if _, ok := fs.dirents[p]; ok { return File(-1), false } inode := fs.nextInode() fs.inodes[inode] = nil fs.dirents[p] = inode fd := fs.allocFd(inode, appendMode) return File(fd), true }" = true.
Proof. vm_compute. reflexivity. Qed.

Example O12_body_filesys_MemFs_Delete :
  has_body func_bodies "filesys.MemFs.Delete"
    "func(dir, fname string)"
    "{ fs.m.Lock() defer fs.m.Unlock() delete(fs.dirents, mkpath(dir, fname)) }" = true.
Proof. vm_compute. reflexivity. Qed.

Example O12_body_filesys_MemFs_Link :
  has_body func_bodies "filesys.MemFs.Link"
    "func(oldDir, oldName, newDir, newName string) bool"
    "{ fs.m.Lock() defer fs.m.Unlock() fs.checkDir(oldDir) fs.checkDir(newDir) inode, ok := fs.dirents[mkpath(oldDir, oldName)] if !ok { panic(fmt.Errorf(""attempt to link non-existent file %s/%s"", oldDir, oldName)) } if _, ok := fs.dirents[mkpath(newDir, newName)]; ok { return false } fs.dirents[mkpath(newDir, newName)] = inode return true }" = true.
Proof. vm_compute. reflexivity. Qed.

Example O12_body_filesys_MemFs_List :
  has_body func_bodies "filesys.MemFs.List"
    "func(dir string) (names []string)"
    "{ fs.m.Lock() defer fs.m.Unlock() fs.checkDir(dir) for n := range fs.dirents { if n.dir == dir { names = append(names, n.name) } } return }" = true.
Proof. vm_compute. reflexivity. Qed.

Example O12_body_filesys_MemFs_Mkdir :
  has_body func_bodies "filesys.MemFs.Mkdir"
    "func(dir string)"
    "{ fs.m.Lock() defer fs.m.Unlock() fs.validDirs[dir] = true }" = true.
Proof. vm_compute. reflexivity. Qed.

Example O12_body_filesys_MemFs_Open :
  has_body func_bodies "filesys.MemFs.Open"
    "func(dir, fname string) File"
    "{ fs.m.Lock() defer fs.m.Unlock() fs.checkDir(dir) fname = path.Clean(fname) inode, ok := fs.dirents[mkpath(dir, fname)] if !ok { panic(fmt.Errorf(""file %s does not exist"", fname)) } return File(fs.allocFd(inode, readMode)) }" = true.
Proof. vm_compute. reflexivity. Qed.

Example O12_body_filesys_MemFs_ReadAt :
  has_body func_bodies "filesys.MemFs.ReadAt"
    "func(f File, offset uint64, length uint64) []byte"
    "{ fs.m.Lock() defer fs.m.Unlock() inode := fs.checkMode(f, readMode) data := fs.inodes[inode] if offset >= uint64(len(data)) { return nil } p := make([]byte, length) n := copy(p, data[offset:]) return p[:n] }" = true.
Proof. vm_compute. reflexivity. Qed.

Example O12_body_filesys_MemFs_allocFd :
  has_body func_bodies "filesys.MemFs.allocFd"
    "func(inode int, mode fileMode) int"
    "{ fd := fs.nextFdNum fs.nextFdNum++ fs.openFiles[fd] = openFile{inode: inode, mode: mode} return fd }" = true.
Proof. vm_compute. reflexivity. Qed.

Example O12_body_filesys_MemFs_checkDir :
  has_body func_bodies "filesys.MemFs.checkDir"
    "func(dir string)"
    "{ if !fs.validDirs[dir] { panic(fmt.Errorf(""non-existent dir %s (use Mkdir)"", dir)) } }" = true.
Proof. vm_compute. reflexivity. Qed.

Example O12_body_filesys_MemFs_checkMode :
  has_body func_bodies "filesys.MemFs.checkMode"
    "func(f File, mode fileMode) int"
    "{ actual, ok := fs.openFiles[f.fd()] if !ok { panic(fmt.Errorf(""use of unopened file %d"", f.fd())) } if actual.mode != mode { panic(fmt.Errorf(""attempt to use file using %s != %s"", mode, actual.mode)) } return actual.inode }" = true.
Proof. vm_compute. reflexivity. Qed.

Example O12_body_filesys_MemFs_nextInode :
  has_body func_bodies "filesys.MemFs.nextInode"
    "func() int"
    "{ return len(fs.inodes) + 1 }" = true.
Proof. vm_compute. reflexivity. Qed.

Example O12_body_filesys_NewMemFs :
  has_body func_bodies "filesys.NewMemFs"
    "func() *MemFs"
    "{ return &MemFs{ validDirs: make(map[string]bool), inodes: make(map[int][]byte), dirents: make(map[pathname]int), openFiles: make(map[int]openFile), nextFdNum: 1, } }" = true.
Proof. vm_compute. reflexivity. Qed.

Example O12_body_filesys_mkpath :
  has_body func_bodies "filesys.mkpath"
    "func(dir, name string) pathname"
    "{ return pathname{dir: dir, name: name} }" = true.
Proof. vm_compute. reflexivity. Qed.

Example O12_body_filesys_Create :
  has_body func_bodies "filesys.Create"
    "func(dir, fname string) (File, bool)"
    "{ return Fs.Create(dir, fname) }" = true.
Proof. vm_compute. reflexivity. Qed.

Example O12_body_filesys_Append :
  has_body func_bodies "filesys.Append"
    "func(f File, data []byte)"
    "{ Fs.Append(f, data) }" = true.
Proof. vm_compute. reflexivity. Qed.

Example O12_body_filesys_Close :
  has_body func_bodies "filesys.Close"
    "func(f File)"
    "{ Fs.Close(f) }" = true.
Proof. vm_compute. reflexivity. Qed.

Example O12_body_filesys_Open :
  has_body func_bodies "filesys.Open"
    "func(dir, fname string) File"
    "{ return Fs.Open(dir, fname) }" = true.
Proof. vm_compute. reflexivity. Qed.

Example O12_body_filesys_ReadAt :
  has_body func_bodies "filesys.ReadAt"
    "func(f File, offset uint64, length uint64) []byte"
    "{ return Fs.ReadAt(f, offset, length) }" = true.
Proof. vm_compute. reflexivity. Qed.

Example O12_body_filesys_Delete :
  has_body func_bodies "filesys.Delete"
    "func(dir, fname string)"
    "{ Fs.Delete(dir, fname) }" = true.
Proof. vm_compute. reflexivity. Qed.

Example O12_body_filesys_AtomicCreate :
  has_body func_bodies "filesys.AtomicCreate"
    "func(dir, fname string, data []byte)"
    "{ Fs.AtomicCreate(dir, fname, data) }" = true.
Proof. vm_compute. reflexivity. Qed.

Example O12_body_filesys_Link :
  has_body func_bodies "filesys.Link"
    "func(oldDir, oldName, newDir, newName string) bool"
    "{ return Fs.Link(oldDir, oldName, newDir, newName) }" = true.
Proof. vm_compute. reflexivity. Qed.

Example O12_body_filesys_List :
  has_body func_bodies "filesys.List"
    "func(dir string) []string"
    "{ return Fs.List(dir) }" = true.
Proof. vm_compute. reflexivity. Qed.

Example O12_body_filesys_File_fd :
  has_body func_bodies "filesys.File.fd"
    "func() int"
    "{ return int(f) }" = true.
Proof. vm_compute. reflexivity. Qed.

Example O12_type_filesys_File :
  has_body type_decls "filesys.File"
    "def"
    "int" = true.
Proof. vm_compute. reflexivity. Qed.

Example O12_type_filesys_Filesys :
  has_body type_decls "filesys.Filesys"
    "def"
    "interface { Create(dir, fname string) (f File, ok bool) Append(f File, data []byte) Close(f File) Open(dir, fname string) File ReadAt(f File, offset uint64, length uint64) []byte Delete(dir, fname string) AtomicCreate(dir, fname string, data []byte) Link(oldDir, oldName, newDir, newName string) bool List(dir string) []string Mkdir(dir string) }" = true.
Proof. vm_compute. reflexivity. Qed.

Example O12_type_filesys_fileMode :
  has_body type_decls "filesys.fileMode"
    "def"
    "uint8" = true.
Proof. vm_compute. reflexivity. Qed.

Example O12_type_filesys_pathname :
  has_body type_decls "filesys.pathname"
    "def"
    "struct { dir, name string }" = true.
Proof. vm_compute. reflexivity. Qed.

Example O12_type_filesys_MemFs :
  has_body type_decls "filesys.MemFs"
    "def"
    "struct { m sync.Mutex validDirs map[string]bool inodes map[int][]byte dirents map[pathname]int openFiles map[int]openFile nextFdNum int }" = true.
Proof. vm_compute. reflexivity. Qed.

Example O12_type_filesys_openFile :
  has_body type_decls "filesys.openFile"
    "def"
    "struct { inode int mode fileMode }" = true.
Proof. vm_compute. reflexivity. Qed.

Example O12_type_filesys_DirFs :
  has_body type_decls "filesys.DirFs"
    "def"
    "struct { rootFd int }" = true.
Proof. vm_compute. reflexivity. Qed.

Example O12_var_filesys_Fs :
  has_body var_decls "filesys.Fs"
    "Filesys"
    "" = true.
Proof. vm_compute. reflexivity. Qed.
