(* Per-run obligation O01sem: goose's output for internal/examples/semantics,
   regenerated with the goose built from the working tree (coq/gen/GenSemantics.v),
   evaluated under the reference semantics: every test function of the upstream
   semantics suite (those whose name does not start with failing_) returns #true. *)
From Coq Require Import String List Bool.
From GV Require Import Lang.GlSyntax Lang.GlSem.
From GVGen Require Import GenSemTests.
From GV Require Import Oblig.SemRun.
Import ListNotations.

Example O01_goose_translated_semantics : goose_translated_semantics = true.
Proof. vm_compute. reflexivity. Qed.

Example O01_semantics_suite_is_there : Nat.leb 80 (length sem_tests) = true.
Proof. vm_compute. reflexivity. Qed.

Example O01_semantics_suite_passes : forallb passes sem_tests = true.
Proof. vm_compute. reflexivity. Qed.

