(* Per-run obligations O11body: the bodies Reopen.v and the fault scenarios are written against.
   The expected texts below were frozen from the source the models in this
   development were written against (bin/mkoblig.py); coq/gen is regenerated
   from /repo on every run and these Examples are re-checked by the kernel. *)
From Coq Require Import String List Bool.
From GV Require Import Base.Tables.
From GVGen Require Import GenBodies.
Open Scope string_scope.

Example O11body_body_disk_NewFileDisk :
  has_body func_bodies "disk.NewFileDisk"
    "func(path string, numBlocks uint64) (FileDisk, error)"
    "{ fd, err := unix.Open(path, unix.O_RDWR|unix.O_CREAT, 0666) if err != nil { return FileDisk{}, err } var stat unix.Stat_t err = unix.Fstat(fd, &stat) if err != nil { return FileDisk{}, err } if (stat.Mode&unix.S_IFREG) != 0 && uint64(stat.Size) != numBlocks*BlockSize { err = unix.Ftruncate(fd, int64(numBlocks*BlockSize)) if err != nil { return FileDisk{}, err } } return FileDisk{fd, numBlocks}, nil }" = true.
Proof. vm_compute. reflexivity. Qed.

Example O11body_body_disk_FileDisk_Barrier :
  has_body func_bodies "disk.FileDisk.Barrier"
    "func()"
    "{ err := unix.Fsync(d.fd) if err != nil { panic(""file sync failed: "" + err.Error()) } }" = true.
Proof. vm_compute. reflexivity. Qed.

Example O11body_body_disk_FileDisk_Close :
  has_body func_bodies "disk.FileDisk.Close"
    "func()"
    "{ err := unix.Close(d.fd) if err != nil { panic(err) } }" = true.
Proof. vm_compute. reflexivity. Qed.

Example O11body_body_disk_FileDisk_Read :
  has_body func_bodies "disk.FileDisk.Read"
    "func(a uint64) Block"
    "{ buf := make([]byte, BlockSize) d.ReadTo(a, buf) return buf }" = true.
Proof. vm_compute. reflexivity. Qed.

Example O11body_body_disk_FileDisk_ReadTo :
  has_body func_bodies "disk.FileDisk.ReadTo"
    "func(a uint64, buf Block)"
    "{ if uint64(len(buf)) != BlockSize { panic(""buffer is not block-sized"") } if a >= d.numBlocks { panic(fmt.Errorf(""out-of-bounds read at %v"", a)) } _, err := unix.Pread(d.fd, buf, int64(a*BlockSize)) if err != nil { panic(""read failed: "" + err.Error()) } }" = true.
Proof. vm_compute. reflexivity. Qed.

Example O11body_body_disk_FileDisk_Size :
  has_body func_bodies "disk.FileDisk.Size"
    "func() uint64"
    "{ return d.numBlocks }" = true.
Proof. vm_compute. reflexivity. Qed.

Example O11body_body_disk_FileDisk_Write :
  has_body func_bodies "disk.FileDisk.Write"
    "func(a uint64, v Block)"
    "{ if uint64(len(v)) != BlockSize { panic(fmt.Errorf(""v is not block sized (%d bytes)"", len(v))) } if a >= d.numBlocks { panic(fmt.Errorf(""out-of-bounds write at %v"", a)) } _, err := unix.Pwrite(d.fd, v, int64(a*BlockSize)) if err != nil { panic(""write failed: "" + err.Error()) } }" = true.
Proof. vm_compute. reflexivity. Qed.
