(* Running the upstream semantics suite (goose's output for
   internal/examples/semantics, regenerated each run) under the reference
   semantics.  Definitions only; the obligation is in O01sem.v. *)
From Coq Require Import String List Bool.
From GV Require Import Lang.GlSyntax Lang.GlSem.
From GVGen Require Import GenSemTests.
Import ListNotations.

Definition passes (t : string * val) : bool :=
  match run 20000 (App (Val (snd t)) (Val (LitV LitUnit))) with
  | RVal (LitV (LitBool true)) _ => true
  | _ => false
  end.

(* the upstream-documented failing tests, evaluated for the known-findings report *)
Definition failing_now : list string :=
  map fst (filter (fun t => negb (passes t)) failing_sem_tests).

(* tests of the suite proper that do not return #true (expected: none) *)
Definition broken_now : list string :=
  map fst (filter (fun t => negb (passes t)) sem_tests).
