(* Per-run obligations of C14 on the regenerated skeletons of machine/filesys. *)
From Coq Require Import String List Bool Arith.
From GV Require Import Base.Skel Base.Tables Conc.LockShape.
From GVGen Require Import GenSkeletons GenBodies.
Import ListNotations.
Open Scope string_scope.

Definition memfs_exported : list string :=
  ["filesys.MemFs.Create"; "filesys.MemFs.Append"; "filesys.MemFs.Close"; "filesys.MemFs.Open";
   "filesys.MemFs.ReadAt"; "filesys.MemFs.Delete"; "filesys.MemFs.AtomicCreate"; "filesys.MemFs.Link";
   "filesys.MemFs.List"; "filesys.MemFs.Mkdir"].
Definition memfs_helpers : list string :=
  ["filesys.MemFs.checkDir"; "filesys.MemFs.nextInode"; "filesys.MemFs.allocFd"; "filesys.MemFs.checkMode"].

Definition sk_of (k : string) : list sk := match lookup_sk k skeletons with Some s => s | None => [SOther "missing"] end.

(* every exported method is  fs.m.Lock(); defer fs.m.Unlock(); body  with the lock never touched again *)
Example O14_exported_methods_locked :
  forallb (fun k => starts_locked "fs.m.Lock" "fs.m.Unlock" "fs.m." (sk_of k)) memfs_exported = true.
Proof. vm_compute. reflexivity. Qed.
(* helpers (callable only from inside the package) never take or release the lock *)
Example O14_helpers_lock_free :
  forallb (fun k => never_mentions "fs.m." (sk_of k) && negb (existsb has_other (sk_of k))) memfs_helpers = true.
Proof. vm_compute. reflexivity. Qed.
(* the method set is exactly exported ++ helpers: nothing escapes the analysis *)
Example O14_method_set :
  map fst (filter (fun kv => prefix "filesys.MemFs." (fst kv)) skeletons) =
  ["filesys.MemFs.checkDir"; "filesys.MemFs.nextInode"; "filesys.MemFs.allocFd"; "filesys.MemFs.Create";
   "filesys.MemFs.checkMode"; "filesys.MemFs.Append"; "filesys.MemFs.Close"; "filesys.MemFs.Open";
   "filesys.MemFs.ReadAt"; "filesys.MemFs.Delete"; "filesys.MemFs.AtomicCreate"; "filesys.MemFs.Link";
   "filesys.MemFs.List"; "filesys.MemFs.Mkdir"].
Proof. vm_compute. reflexivity. Qed.
(* one plain mutex; no goroutines are started by the library *)
Example O14_struct_mutex :
  match lookup "filesys.MemFs" type_decls with Some (_, t) => contains "m sync.Mutex" t | None => false end = true.
Proof. vm_compute. reflexivity. Qed.
Example O14_no_goroutines :
  all_methods "filesys." (fun ss => negb (existsb has_go ss)) skeletons = true.
Proof. vm_compute. reflexivity. Qed.
(* DirFs: every method except AtomicCreate, List (documented non-atomic) and the
   constructor/destructor is exactly one system call — atomic in the kernel *)
Example O14_dirfs_single_syscall :
  map (fun k => syscalls_in (sk_of k))
      ["filesys.DirFs.Mkdir"; "filesys.DirFs.Create"; "filesys.DirFs.Append"; "filesys.DirFs.Close";
       "filesys.DirFs.Open"; "filesys.DirFs.ReadAt"; "filesys.DirFs.Delete"; "filesys.DirFs.Link"]
  = [1; 1; 1; 1; 1; 1; 1; 1]%nat.
Proof. vm_compute. reflexivity. Qed.
(* ... and it is the positional call: a read through a descriptor shared by
   several goroutines does not go through the descriptor's offset *)
Example O14_dirfs_which_syscall :
  map (fun k => flat_map unix_calls (sk_of k))
      ["filesys.DirFs.Mkdir"; "filesys.DirFs.Create"; "filesys.DirFs.Append"; "filesys.DirFs.Close";
       "filesys.DirFs.Open"; "filesys.DirFs.ReadAt"; "filesys.DirFs.Delete"; "filesys.DirFs.Link"]
  = [["unix.Mkdirat"]; ["unix.Openat"]; ["unix.Write"]; ["unix.Close"];
     ["unix.Openat"]; ["unix.Pread"]; ["unix.Unlinkat"]; ["unix.Linkat"]].
Proof. vm_compute. reflexivity. Qed.
(* DirFs keeps no mutable state in the process *)
Example O14_dirfs_stateless :
  all_methods "filesys.DirFs." (fun ss => negb (existsb (writes_to "fs.") ss)) skeletons = true.
Proof. vm_compute. reflexivity. Qed.
