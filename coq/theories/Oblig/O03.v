(* Per-run obligations O03: the translation of go statements, mutexes, condition variables, wait groups and the timed primitives, and their Go implementations.
   The expected texts below were frozen from the source the models in this
   development were written against (bin/mkoblig.py); coq/gen is regenerated
   from /repo on every run and these Examples are re-checked by the kernel. *)
From Coq Require Import String List Bool.
From GV Require Import Base.Tables.
From GVGen Require Import GenBodies GenInventory GenTables.
Import ListNotations.
Open Scope string_scope.

Example O03_body_goose_Ctx_goStmt :
  has_body func_bodies "goose.Ctx.goStmt"
    "func(e *ast.GoStmt) coq.Expr"
    "{ if len(e.Call.Args) > 0 { ctx.todo(e, ""go statement with parameters"") } return ctx.spawnExpr(e.Call.Fun) }" = true.
Proof. vm_compute. reflexivity. Qed.

Example O03_body_goose_Ctx_spawnExpr :
  has_body func_bodies "goose.Ctx.spawnExpr"
    "func(thread ast.Expr) coq.SpawnExpr"
    "{ f, ok := thread.(*ast.FuncLit) if !ok { ctx.futureWork(thread, ""only function literal spawns are supported"") return coq.SpawnExpr{} } return coq.SpawnExpr{Body: ctx.blockStmt(f.Body, ExprValLocal)} }" = true.
Proof. vm_compute. reflexivity. Qed.

Example O03_body_goose_Ctx_lockMethod :
  has_body func_bodies "goose.Ctx.lockMethod"
    "func(f *ast.SelectorExpr) coq.CallExpr"
    "{ l := ctx.expr(f.X) switch f.Sel.Name { case ""Lock"": return coq.NewCallExpr(coq.GallinaIdent(""lock.acquire""), l) case ""Unlock"": return coq.NewCallExpr(coq.GallinaIdent(""lock.release""), l) default: ctx.nope(f, ""method %s of sync.Mutex"", ctx.printGo(f)) return coq.CallExpr{} } }" = true.
Proof. vm_compute. reflexivity. Qed.

Example O03_body_goose_Ctx_condVarMethod :
  has_body func_bodies "goose.Ctx.condVarMethod"
    "func(f *ast.SelectorExpr) coq.CallExpr"
    "{ l := ctx.expr(f.X) switch f.Sel.Name { case ""Signal"": return coq.NewCallExpr(coq.GallinaIdent(""lock.condSignal""), l) case ""Broadcast"": return coq.NewCallExpr(coq.GallinaIdent(""lock.condBroadcast""), l) case ""Wait"": return coq.NewCallExpr(coq.GallinaIdent(""lock.condWait""), l) default: ctx.unsupported(f, ""method %s of sync.Cond"", f.Sel.Name) return coq.CallExpr{} } }" = true.
Proof. vm_compute. reflexivity. Qed.

Example O03_body_goose_Ctx_waitGroupMethod :
  has_body func_bodies "goose.Ctx.waitGroupMethod"
    "func(f *ast.SelectorExpr, args []ast.Expr) coq.CallExpr"
    "{ callArgs := append([]ast.Expr{f.X}, args...) switch f.Sel.Name { case ""Add"": return ctx.newCoqCall(""waitgroup.Add"", callArgs) case ""Done"": return ctx.newCoqCall(""waitgroup.Done"", callArgs) case ""Wait"": return ctx.newCoqCall(""waitgroup.Wait"", callArgs) default: ctx.unsupported(f, ""method %s of sync.WaitGroup"", f.Sel.Name) return coq.CallExpr{} } }" = true.
Proof. vm_compute. reflexivity. Qed.

Example O03_body_goose_Ctx_newExpr :
  has_body func_bodies "goose.Ctx.newExpr"
    "func(ty ast.Expr) coq.CallExpr"
    "{ if sel, ok := ty.(*ast.SelectorExpr); ok { if isIdent(sel.X, ""sync"") && isIdent(sel.Sel, ""Mutex"") { return coq.NewCallExpr(coq.GallinaIdent(""lock.new"")) } if isIdent(sel.X, ""sync"") && isIdent(sel.Sel, ""WaitGroup"") { return coq.NewCallExpr(coq.GallinaIdent(""waitgroup.New"")) } if isIdent(sel.X, ""cfmutex"") && isIdent(sel.Sel, ""CFMutex"") { return coq.NewCallExpr(coq.GallinaIdent(""lock.new"")) } } if t, ok := ctx.typeOf(ty).(*types.Array); ok { return coq.NewCallExpr(coq.GallinaIdent(""zero_array""), ctx.coqTypeOfType(ty, t.Elem()), coq.IntLiteral{Value: uint64(t.Len())}) } e := coq.NewCallExpr(coq.GallinaIdent(""zero_val""), ctx.coqType(ty)) if info, ok := ctx.getStructInfo(ctx.typeOf(ty)); ok && !info.throughPointer { return coq.NewCallExpr(coq.GallinaIdent(""struct.alloc""), coq.StructDesc(info.name), e) } return coq.NewCallExpr(coq.GallinaIdent(""ref""), e) }" = true.
Proof. vm_compute. reflexivity. Qed.

Example O03_body_goose_Ctx_packageMethod :
  has_body func_bodies "goose.Ctx.packageMethod"
    "func(f *ast.SelectorExpr, call *ast.CallExpr) coq.Expr"
    "{ args := call.Args if isIdent(f.X, ""filesys"") { return ctx.newCoqCall(""FS.""+toInitialLower(f.Sel.Name), args) } if isIdent(f.X, ""disk"") { return ctx.newCoqCall(""disk.""+f.Sel.Name, args) } if isIdent(f.X, ""machine"") || isIdent(f.X, ""primitive"") { switch f.Sel.Name { case ""UInt64Get"", ""UInt64Put"", ""UInt32Get"", ""UInt32Put"": return ctx.newCoqCall(f.Sel.Name, args) case ""RandomUint64"": return ctx.newCoqCall(""rand.RandomUint64"", args) case ""UInt64ToString"": return ctx.newCoqCall(""uint64_to_string"", args) case ""Linearize"": return coq.GallinaIdent(""Linearize"") case ""Assume"": return ctx.newCoqCall(""control.impl.Assume"", args) case ""Assert"": return ctx.newCoqCall(""control.impl.Assert"", args) case ""Exit"": return ctx.newCoqCall(""control.impl.Exit"", args) case ""WaitTimeout"": return ctx.newCoqCall(""lock.condWaitTimeout"", args) case ""Sleep"": return ctx.newCoqCall(""time.Sleep"", args) case ""TimeNow"": return ctx.newCoqCall(""time.TimeNow"", args) case ""MapClear"": return ctx.newCoqCall(""MapClear"", args) case ""NewProph"": return ctx.newCoqCall(""NewProph"", args) default: ctx.futureWork(f, ""unhandled call to primitive.%s"", f.Sel.Name) return coq.CallExpr{} } } if isIdent(f.X, ""log"") { switch f.Sel.Name { case ""Print"", ""Printf"", ""Println"": return coq.LoggingStmt{GoCall: ctx.printGo(call)} } } if isIdent(f.X, ""util"") && f.Sel.Name == ""DPrintf"" { return coq.NewCallExpr(coq.GallinaIdent(""util.DPrintf""), ctx.expr(args[0]), ctx.expr(args[1]), coq.UnitLiteral{}) } if isIdent(f.X, ""fmt"") { switch f.Sel.Name { case ""Println"", ""Printf"": return coq.LoggingStmt{GoCall: ctx.printGo(call)} } } if isIdent(f.X, ""sync"") { switch f.Sel.Name { case ""NewCond"": return ctx.newCoqCall(""lock.newCond"", args) } } pkg := f.X.(*ast.Ident) return ctx.newCoqCallTypeArgs( coq.GallinaIdent(coq.PackageIdent{Package: pkg.Name, Ident: f.Sel.Name}.Coq(true)), ctx.typeList(call, ctx.info.Instances[f.Sel].TypeArgs), args) }" = true.
Proof. vm_compute. reflexivity. Qed.

Example O03_body_goose_Ctx_selectorMethod :
  has_body func_bodies "goose.Ctx.selectorMethod"
    "func(f *ast.SelectorExpr, call *ast.CallExpr) coq.Expr"
    "{ args := call.Args selectorType, ok := ctx.getType(f.X) if !ok { return ctx.packageMethod(f, call) } if isLockRef(selectorType) { return ctx.lockMethod(f) } if isCFMutexRef(selectorType) { return ctx.lockMethod(f) } if isCondVar(selectorType) { return ctx.condVarMethod(f) } if isWaitGroup(selectorType) { return ctx.waitGroupMethod(f, args) } if isProphId(selectorType) { return ctx.prophIdMethod(f, args) } if isDisk(selectorType) { method := fmt.Sprintf(""disk.%s"", f.Sel) return ctx.newCoqCall(method, call.Args) } deref := selectorType if pt, ok := selectorType.(*types.Pointer); ok { deref = pt.Elem() } switch deref.Underlying().(type) { case *types.Interface: interfaceInfo, ok := ctx.getInterfaceInfo(selectorType) if ok { callArgs := append([]ast.Expr{f.X}, args...) return ctx.newCoqCall( coq.InterfaceMethodName(interfaceInfo.name, f.Sel.Name), callArgs) } case *types.Struct: structInfo, ok := ctx.getStructInfo(selectorType) if !ok { panic(""expected struct"") } for _, name := range structInfo.fields() { if f.Sel.Name == name { return ctx.newCoqCallWithExpr( ctx.structSelector(structInfo, f), args) } } } namedTy := deref.(*types.Named) tyName := ctx.qualifiedName(namedTy.Obj()) callArgs := append([]ast.Expr{f.X}, args...) fullName := coq.MethodName(tyName, f.Sel.Name) ctx.dep.addDep(fullName) coqCall := ctx.coqRecurFunc(fullName, f.Sel) return ctx.newCoqCallWithExpr(coqCall, callArgs) }" = true.
Proof. vm_compute. reflexivity. Qed.

Example O03_body_goose_Ctx_selectorExprType :
  has_body func_bodies "goose.Ctx.selectorExprType"
    "func(e *ast.SelectorExpr) coq.Expr"
    "{ if isIdent(e.X, ""filesys"") && isIdent(e.Sel, ""File"") { return coq.TypeIdent(""fileT"") } if isIdent(e.X, ""disk"") && isIdent(e.Sel, ""Block"") { return coq.TypeIdent(""disk.blockT"") } if isIdent(e.X, ""sync"") && (isIdent(e.Sel, ""Cond"") || isIdent(e.Sel, ""Mutex"")) { ctx.unsupported(e, ""%s without pointer indirection"", ctx.printGo(e)) } return ctx.coqTypeOfType(e, ctx.typeOf(e)) }" = true.
Proof. vm_compute. reflexivity. Qed.

Example O03_body_goose_isLockRef :
  has_body func_bodies "goose.isLockRef"
    "func(t types.Type) bool"
    "{ if t, ok := t.(*types.Pointer); ok { if t, ok := t.Elem().(*types.Named); ok { name := t.Obj() return name.Pkg().Name() == ""sync"" && name.Name() == ""Mutex"" } } return false }" = true.
Proof. vm_compute. reflexivity. Qed.

Example O03_body_goose_isCondVar :
  has_body func_bodies "goose.isCondVar"
    "func(t types.Type) bool"
    "{ if t, ok := t.(*types.Pointer); ok { if t, ok := t.Elem().(*types.Named); ok { name := t.Obj() return name.Pkg().Name() == ""sync"" && name.Name() == ""Cond"" } } return false }" = true.
Proof. vm_compute. reflexivity. Qed.

Example O03_body_goose_isWaitGroup :
  has_body func_bodies "goose.isWaitGroup"
    "func(t types.Type) bool"
    "{ if t, ok := t.(*types.Pointer); ok { if t, ok := t.Elem().(*types.Named); ok { name := t.Obj() return name.Pkg().Name() == ""sync"" && name.Name() == ""WaitGroup"" } } return false }" = true.
Proof. vm_compute. reflexivity. Qed.

Example O03_body_goose_isCFMutexRef :
  has_body func_bodies "goose.isCFMutexRef"
    "func(t types.Type) bool"
    "{ if t, ok := t.(*types.Pointer); ok { if t, ok := t.Elem().(*types.Named); ok { name := t.Obj() return name.Pkg().Name() == ""cfmutex"" && name.Name() == ""CFMutex"" } } return false }" = true.
Proof. vm_compute. reflexivity. Qed.

Example O03_body_coq_SpawnExpr_Coq :
  has_body func_bodies "coq.SpawnExpr.Coq"
    "func(needs_paren bool) string"
    "{ var pp buffer pp.Block(""Fork ("", ""%s)"", e.Body.Coq(false)) return addParens(needs_paren, pp.Build()) }" = true.
Proof. vm_compute. reflexivity. Qed.

Example O03_body_goose_Ctx_funcLit :
  has_body func_bodies "goose.Ctx.funcLit"
    "func(e *ast.FuncLit) coq.FuncLit"
    "{ fl := coq.FuncLit{} fl.Args = ctx.paramList(e.Type.Params) fl.Body = ctx.blockStmt(e.Body, ExprValReturned) return fl }" = true.
Proof. vm_compute. reflexivity. Qed.

Example O03_body_goose_Ctx_variable :
  has_body func_bodies "goose.Ctx.variable"
    "func(s *ast.Ident) coq.Expr"
    "{ if ctx.isGlobalVar(s) { ctx.dep.addDep(s.Name) return coq.GallinaIdent(s.Name) } e := coq.IdentExpr(s.Name) if ctx.isPtrWrapped(s) { return coq.DerefExpr{X: e, Ty: ctx.coqTypeOfType(s, ctx.typeOf(s))} } return e }" = true.
Proof. vm_compute. reflexivity. Qed.

Example O03_body_goose_Ctx_varSpec :
  has_body func_bodies "goose.Ctx.varSpec"
    "func(s *ast.ValueSpec) coq.Binding"
    "{ if len(s.Names) > 1 { ctx.unsupported(s, ""multiple declarations in one block"") } lhs := s.Names[0] ctx.setPtrWrapped(lhs) var rhs coq.Expr if len(s.Values) == 0 { ty := ctx.typeOf(lhs) rhs = coq.NewCallExpr(coq.GallinaIdent(""ref""), coq.NewCallExpr(coq.GallinaIdent(""zero_val""), ctx.coqTypeOfType(s, ty))) } else { rhs = ctx.referenceTo(s.Values[0]) } return coq.Binding{ Names: []string{lhs.Name}, Expr: rhs, } }" = true.
Proof. vm_compute. reflexivity. Qed.

Example O03_body_goose_Ctx_forStmt :
  has_body func_bodies "goose.Ctx.forStmt"
    "func(s *ast.ForStmt) coq.ForLoopExpr"
    "{ var init = coq.NewAnon(coq.Skip) var ident *ast.Ident if s.Init != nil { ident, _ = ctx.loopVar(s.Init) ctx.setPtrWrapped(ident) init = ctx.stmt(s.Init) } var cond coq.Expr = coq.True if s.Cond != nil { cond = ctx.expr(s.Cond) } post := coq.Skip if s.Post != nil { postBlock := ctx.stmt(s.Post) if len(postBlock.Names) > 0 { ctx.unsupported(s.Post, ""post cannot bind names"") } post = postBlock.Expr } body := ctx.blockStmt(s.Body, ExprValLoop) return coq.ForLoopExpr{ Init: init, Cond: cond, Post: post, Body: body, } }" = true.
Proof. vm_compute. reflexivity. Qed.

Example O03_body_machine_WaitTimeout :
  has_body func_bodies "machine.WaitTimeout"
    "func(cond *sync.Cond, timeoutMs uint64)"
    "{ primitive.WaitTimeout(cond, timeoutMs) }" = true.
Proof. vm_compute. reflexivity. Qed.

Example O03_body_machine_Sleep :
  has_body func_bodies "machine.Sleep"
    "func(ns uint64)"
    "{ time.Sleep(time.Duration(ns) * time.Nanosecond) }" = true.
Proof. vm_compute. reflexivity. Qed.
