(* Per-run obligations O05: the printer of internal/coq/coq.go, the literal restrictions and the optional emissions.
   The expected texts below were frozen from the source the models in this
   development were written against (bin/mkoblig.py); coq/gen is regenerated
   from /repo on every run and these Examples are re-checked by the kernel. *)
From Coq Require Import String List Bool.
From GV Require Import Base.Tables.
From GVGen Require Import GenBodies GenInventory GenTables.
Import ListNotations.
Open Scope string_scope.

Example O05_body_coq_buffer_AddComment :
  has_body func_bodies "coq.buffer.AddComment"
    "func(c string)"
    "{ if c == """" { return } c = strings.ReplaceAll(c, ""(*"", ""( *"") c = strings.ReplaceAll(c, ""*)"", ""* )"") if strings.Count(c, ""\"""")%2 == 1 { c += ""\"""" } indent := pp.Block(""(* "", ""%s *)"", c) pp.Indent(-indent) }" = true.
Proof. vm_compute. reflexivity. Qed.

Example O05_body_coq_buffer_AddLine :
  has_body func_bodies "coq.buffer.AddLine"
    "func(line string)"
    "{ if line == """" { pp.appendLine("""") } else { pp.appendLine(pp.indentation() + indent(pp.indentLevel, line)) } }" = true.
Proof. vm_compute. reflexivity. Qed.

Example O05_body_coq_buffer_Add :
  has_body func_bodies "coq.buffer.Add"
    "func(format string, args ...interface{})"
    "{ pp.AddLine(fmt.Sprintf(format, args...)) }" = true.
Proof. vm_compute. reflexivity. Qed.

Example O05_body_coq_buffer_Block :
  has_body func_bodies "coq.buffer.Block"
    "func(prefix string, format string, args ...interface{}) int"
    "{ pp.AddLine(prefix + indent(len(prefix), fmt.Sprintf(format, args...))) pp.Indent(len(prefix)) return len(prefix) }" = true.
Proof. vm_compute. reflexivity. Qed.

Example O05_body_coq_buffer_Indent :
  has_body func_bodies "coq.buffer.Indent"
    "func(spaces int)"
    "{ pp.indentLevel += spaces }" = true.
Proof. vm_compute. reflexivity. Qed.

Example O05_body_coq_buffer_Build :
  has_body func_bodies "coq.buffer.Build"
    "func() string"
    "{ return strings.Join(pp.lines, ""\n"") }" = true.
Proof. vm_compute. reflexivity. Qed.

Example O05_body_coq_indent :
  has_body func_bodies "coq.indent"
    "func(spaces int, s string) string"
    "{ lines := strings.Split(s, ""\n"") indentation := strings.Repeat("" "", spaces) for i, line := range lines { if i == 0 || line == """" { continue } lines[i] = indentation + line } return strings.Join(lines, ""\n"") }" = true.
Proof. vm_compute. reflexivity. Qed.

Example O05_body_coq_quote :
  has_body func_bodies "coq.quote"
    "func(s string) string"
    "{ return `""` + s + `""` }" = true.
Proof. vm_compute. reflexivity. Qed.

Example O05_body_coq_binder :
  has_body func_bodies "coq.binder"
    "func(s string) string"
    "{ if s == ""_"" { return ""<>"" } return quote(s) }" = true.
Proof. vm_compute. reflexivity. Qed.

Example O05_body_coq_binderToCoq :
  has_body func_bodies "coq.binderToCoq"
    "func(b Binder) string"
    "{ if b == nil { return ""<>"" } return binder(string(*b)) }" = true.
Proof. vm_compute. reflexivity. Qed.

Example O05_body_coq_addParens :
  has_body func_bodies "coq.addParens"
    "func(needs_paren bool, expr string) string"
    "{ if needs_paren { return ""("" + expr + "")"" } else { return expr } }" = true.
Proof. vm_compute. reflexivity. Qed.

Example O05_body_coq_LoggingStmt_Coq :
  has_body func_bodies "coq.LoggingStmt.Coq"
    "func(needs_paren bool) string"
    "{ var pp buffer pp.AddComment(s.GoCall) return pp.Build() }" = true.
Proof. vm_compute. reflexivity. Qed.

Example O05_body_coq_StringLiteral_Coq :
  has_body func_bodies "coq.StringLiteral.Coq"
    "func(needs_paren bool) string"
    "{ return fmt.Sprintf(`#(str""%s"")`, l.Value) }" = true.
Proof. vm_compute. reflexivity. Qed.

Example O05_body_coq_GallinaString_Coq :
  has_body func_bodies "coq.GallinaString.Coq"
    "func(needs_paren bool) string"
    "{ return quote(string(s)) }" = true.
Proof. vm_compute. reflexivity. Qed.

Example O05_body_coq_IdentExpr_Coq :
  has_body func_bodies "coq.IdentExpr.Coq"
    "func(needs_paren bool) string"
    "{ return quote(string(e)) }" = true.
Proof. vm_compute. reflexivity. Qed.

Example O05_body_coq_CommentDecl_CoqDecl :
  has_body func_bodies "coq.CommentDecl.CoqDecl"
    "func() string"
    "{ var pp buffer pp.AddComment(string(d)) return pp.Build() }" = true.
Proof. vm_compute. reflexivity. Qed.

Example O05_body_coq_NewComment :
  has_body func_bodies "coq.NewComment"
    "func(s string) CommentDecl"
    "{ comment := strings.TrimRight(s, "" \t\n"") return CommentDecl(comment) }" = true.
Proof. vm_compute. reflexivity. Qed.

Example O05_body_coq_BinaryExpr_Coq :
  has_body func_bodies "coq.BinaryExpr.Coq"
    "func(needs_paren bool) string"
    "{ coqBinOp := map[BinOp]string{ OpPlus: ""+"", OpMinus: ""-"", OpEquals: ""="", OpNotEquals: ""≠"", OpAppend: ""+"", OpMul: ""*"", OpQuot: ""`quot`"", OpRem: ""`rem`"", OpLessThan: ""<"", OpGreaterThan: "">"", OpLessEq: ""≤"", OpGreaterEq: ""≥"", OpAnd: ""`and`"", OpOr: ""`or`"", OpXor: ""`xor`"", OpLAnd: ""&&"", OpLOr: ""||"", OpShl: ""≪"", OpShr: ""≫"", } if binop, ok := coqBinOp[be.Op]; ok { expr := fmt.Sprintf(""%s %s %s"", be.X.Coq(true), binop, be.Y.Coq(true)) return addParens(needs_paren, expr) } panic(fmt.Sprintf(""unknown binop %d"", be.Op)) }" = true.
Proof. vm_compute. reflexivity. Qed.

Example O05_body_coq_CallExpr_Coq :
  has_body func_bodies "coq.CallExpr.Coq"
    "func(needs_paren bool) string"
    "{ comps := []string{s.MethodName.Coq(true)} for _, a := range s.TypeArgs { comps = append(comps, a.Coq(true)) } for _, a := range s.Args { comps = append(comps, a.Coq(true)) } return addParens(needs_paren, strings.Join(comps, "" "")) }" = true.
Proof. vm_compute. reflexivity. Qed.

Example O05_body_coq_IfExpr_Coq :
  has_body func_bodies "coq.IfExpr.Coq"
    "func(needs_paren bool) string"
    "{ var pp buffer pp.Add(""(if: %s"", ife.Cond.Coq(false)) flowBranch(&pp, ""then"", ife.Then, """") flowBranch(&pp, ""else"", ife.Else, "")"") return pp.Build() }" = true.
Proof. vm_compute. reflexivity. Qed.

Example O05_body_coq_flowBranch :
  has_body func_bodies "coq.flowBranch"
    "func(pp *buffer, prefix string, e Expr, suffix string)"
    "{ code := e.Coq(false) + suffix if !strings.ContainsRune(code, '\n') { indent := pp.Block(prefix+"" "", ""%s"", code) pp.Indent(-indent) return } pp.AddLine(prefix) pp.Indent(2) pp.AddLine(code) pp.Indent(-2) }" = true.
Proof. vm_compute. reflexivity. Qed.

Example O05_body_coq_BlockExpr_Coq :
  has_body func_bodies "coq.BlockExpr.Coq"
    "func(needs_paren bool) string"
    "{ var pp buffer for n, b := range be.Bindings { if n == len(be.Bindings)-1 { if _, ok := b.Expr.(LoggingStmt); ok { pp.AddLine(b.Expr.Coq(false)) pp.AddLine(UnitLiteral{}.Coq(true)) } else { pp.AddLine(b.Expr.Coq(false)) } continue } b.AddTo(&pp) } return addParens(needs_paren, pp.Build()) }" = true.
Proof. vm_compute. reflexivity. Qed.

Example O05_body_coq_Binding_AddTo :
  has_body func_bodies "coq.Binding.AddTo"
    "func(pp *buffer)"
    "{ if e, ok := b.Expr.(LoggingStmt); ok { pp.Add(""%s"", e.Coq(true)) return } if b.isAnonymous() { pp.Add(""%s;;"", b.Expr.Coq(false)) } else if len(b.Names) == 1 { pp.Add(""let: %s := %s in"", binder(b.Names[0]), b.Expr.Coq(false)) } else if len(b.Names) == 2 { pp.Add(""let: (%s, %s) := %s in"", binder(b.Names[0]), binder(b.Names[1]), b.Expr.Coq(false)) } else if len(b.Names) == 3 { pp.Add(""let: ((%s, %s), %s) := %s in"", binder(b.Names[0]), binder(b.Names[1]), binder(b.Names[2]), b.Expr.Coq(false)) } else if len(b.Names) == 4 { pp.Add(""let: (((%s, %s), %s), %s) := %s in"", binder(b.Names[0]), binder(b.Names[1]), binder(b.Names[2]), binder(b.Names[3]), b.Expr.Coq(false)) } else { panic(""no support for destructuring more than 4 return values"") } }" = true.
Proof. vm_compute. reflexivity. Qed.

Example O05_body_coq_DerefExpr_Coq :
  has_body func_bodies "coq.DerefExpr.Coq"
    "func(needs_paren bool) string"
    "{ expr := fmt.Sprintf(""![%s] %s"", e.Ty.Coq(false), e.X.Coq(true)) return addParens(needs_paren, expr) }" = true.
Proof. vm_compute. reflexivity. Qed.

Example O05_body_coq_StoreStmt_Coq :
  has_body func_bodies "coq.StoreStmt.Coq"
    "func(needs_paren bool) string"
    "{ expr := fmt.Sprintf(""%s <-[%s] %s"", e.Dst.Coq(true), e.Ty.Coq(false), e.X.Coq(true)) return addParens(needs_paren, expr) }" = true.
Proof. vm_compute. reflexivity. Qed.

Example O05_body_coq_RefExpr_Coq :
  has_body func_bodies "coq.RefExpr.Coq"
    "func(needs_paren bool) string"
    "{ return NewCallExpr(GallinaIdent(""ref_to""), e.Ty, e.X).Coq(needs_paren) }" = true.
Proof. vm_compute. reflexivity. Qed.

Example O05_body_coq_ForLoopExpr_Coq :
  has_body func_bodies "coq.ForLoopExpr.Coq"
    "func(needs_paren bool) string"
    "{ var pp buffer e.Init.AddTo(&pp) pp.Add(""(for: (λ: <>, %s); (λ: <>, %s) := λ: <>,"", e.Cond.Coq(false), e.Post.Coq(false)) pp.Indent(2) pp.Add(""%s)"", e.Body.Coq(false)) return pp.Build() }" = true.
Proof. vm_compute. reflexivity. Qed.

Example O05_body_coq_SliceLoopExpr_Coq :
  has_body func_bodies "coq.SliceLoopExpr.Coq"
    "func(needs_paren bool) string"
    "{ var pp buffer pp.Add(""ForSlice %v %s %s %s"", e.Ty.Coq(true), binderToCoq(e.Key), binderToCoq(e.Val), e.Slice.Coq(true)) pp.Indent(2) pp.Add(""%s"", e.Body.Coq(true)) return addParens(needs_paren, pp.Build()) }" = true.
Proof. vm_compute. reflexivity. Qed.

Example O05_body_coq_MapIterExpr_Coq :
  has_body func_bodies "coq.MapIterExpr.Coq"
    "func(needs_paren bool) string"
    "{ var pp buffer pp.Add(""MapIter %s (λ: %s %s,"", e.Map.Coq(true), binder(e.KeyIdent), binder(e.ValueIdent)) pp.Indent(2) pp.Add(""%s)"", e.Body.Coq(false)) return addParens(needs_paren, pp.Build()) }" = true.
Proof. vm_compute. reflexivity. Qed.

Example O05_body_coq_SpawnExpr_Coq :
  has_body func_bodies "coq.SpawnExpr.Coq"
    "func(needs_paren bool) string"
    "{ var pp buffer pp.Block(""Fork ("", ""%s)"", e.Body.Coq(false)) return addParens(needs_paren, pp.Build()) }" = true.
Proof. vm_compute. reflexivity. Qed.

Example O05_body_coq_FuncLit_Coq :
  has_body func_bodies "coq.FuncLit.Coq"
    "func(needs_paren bool) string"
    "{ var pp buffer var args []string for _, a := range e.Args { args = append(args, a.CoqBinder()) } if len(args) == 0 { args = []string{""<>""} } sig := strings.Join(args, "" "") pp.Add(""(λ: %s,"", sig) pp.Indent(2) defer pp.Indent(-2) pp.AddLine(e.Body.Coq(false)) pp.Add("")"") return pp.Build() }" = true.
Proof. vm_compute. reflexivity. Qed.

Example O05_body_coq_NotExpr_Coq :
  has_body func_bodies "coq.NotExpr.Coq"
    "func(needs_paren bool) string"
    "{ return fmt.Sprintf(""(~ %s)"", e.X.Coq(true)) }" = true.
Proof. vm_compute. reflexivity. Qed.

Example O05_body_coq_TupleExpr_Coq :
  has_body func_bodies "coq.TupleExpr.Coq"
    "func(needs_paren bool) string"
    "{ var comps []string for _, t := range te { comps = append(comps, t.Coq(false)) } return fmt.Sprintf(""(%s)"", indent(1, strings.Join(comps, "", ""))) }" = true.
Proof. vm_compute. reflexivity. Qed.

Example O05_body_coq_ParenExpr_Coq :
  has_body func_bodies "coq.ParenExpr.Coq"
    "func(needs_paren bool) string"
    "{ return ""("" + indent(1, e.X.Coq(false)) + "")"" }" = true.
Proof. vm_compute. reflexivity. Qed.

Example O05_body_coq_StructLiteral_Coq :
  has_body func_bodies "coq.StructLiteral.Coq"
    "func(needs_paren bool) string"
    "{ var pp buffer method := ""struct.mk"" if sl.Allocation { method = ""struct.new"" } pp.Add(""%s %s ["", method, StructDesc(sl.StructName).Coq(true)) pp.Indent(2) for i, f := range sl.elts { terminator := "";"" if i == len(sl.elts)-1 { terminator = """" } pp.Add(""%s ::= %s%s"", quote(f.Field), f.Value.Coq(bindsLooserThanFieldInit(f.Value)), terminator) } pp.Indent(-2) pp.Add(""]"") return addParens(needs_paren, pp.Build()) }" = true.
Proof. vm_compute. reflexivity. Qed.

Example O05_body_coq_bindsLooserThanFieldInit :
  has_body func_bodies "coq.bindsLooserThanFieldInit"
    "func(e Expr) bool"
    "{ be, ok := e.(BinaryExpr) if !ok { return false } switch be.Op { case OpEquals, OpNotEquals, OpLessThan, OpGreaterThan, OpLessEq, OpGreaterEq: return true } return false }" = true.
Proof. vm_compute. reflexivity. Qed.

Example O05_body_coq_StructFieldAccessExpr_Coq :
  has_body func_bodies "coq.StructFieldAccessExpr.Coq"
    "func(needs_paren bool) string"
    "{ if e.ThroughPointer { return NewCallExpr(GallinaIdent(""struct.loadF""), StructDesc(e.Struct), GallinaString(e.Field), e.X).Coq(needs_paren) } return NewCallExpr(GallinaIdent(""struct.get""), StructDesc(e.Struct), GallinaString(e.Field), e.X).Coq(needs_paren) }" = true.
Proof. vm_compute. reflexivity. Qed.

Example O05_body_coq_StructDecl_CoqDecl :
  has_body func_bodies "coq.StructDecl.CoqDecl"
    "func() string"
    "{ var pp buffer pp.AddComment(d.Comment) pp.Add(""Definition %s := struct.decl ["", d.Name) pp.Indent(2) for i, fd := range d.Fields { sep := "";"" if i == len(d.Fields)-1 { sep = """" } pp.Add(""%s :: %s%s"", quote(fd.Name), fd.Type.Coq(false), sep) } pp.Indent(-2) pp.AddLine(""]."") return pp.Build() }" = true.
Proof. vm_compute. reflexivity. Qed.

Example O05_body_coq_FuncDecl_CoqDecl :
  has_body func_bodies "coq.FuncDecl.CoqDecl"
    "func() string"
    "{ var pp buffer pp.AddComment(d.Comment) typeParams := make([]string, 0) for _, tp := range d.TypeParams { typeParams = append(typeParams, fmt.Sprintf("" (%s:ty)"", string(tp))) } pp.Add(""Definition %s%s: val :="", d.Name, strings.Join(typeParams, """")) func() { pp.Indent(2) defer pp.Indent(-2) pp.Add(""rec: \""%s\"" %s :="", d.Name, d.Signature()) pp.Indent(2) defer pp.Indent(-2) pp.AddLine(d.Body.Coq(false) + ""."") }() if d.AddTypes { pp.Add(""Theorem %s_t: ⊢ %s : (%s)."", d.Name, d.Name, d.Type()) pp.AddLine(""Proof. typecheck. Qed."") pp.Add(""Hint Resolve %s_t : types."", d.Name) } return pp.Build() }" = true.
Proof. vm_compute. reflexivity. Qed.

Example O05_body_coq_FuncDecl_Signature :
  has_body func_bodies "coq.FuncDecl.Signature"
    "func() string"
    "{ var args []string for _, a := range d.Args { args = append(args, a.CoqBinder()) } if len(args) == 0 { args = []string{""<>""} } return strings.Join(args, "" "") }" = true.
Proof. vm_compute. reflexivity. Qed.

Example O05_body_coq_FuncDecl_Type :
  has_body func_bodies "coq.FuncDecl.Type"
    "func() string"
    "{ types := []string{} for _, a := range d.Args { types = append(types, a.Type.Coq(true)) } if len(d.Args) == 0 { types = append(types, TypeIdent(""unitT"").Coq(true)) } types = append(types, d.ReturnType.Coq(true)) return strings.Join(types, "" -> "") }" = true.
Proof. vm_compute. reflexivity. Qed.

Example O05_body_coq_ConstDecl_CoqDecl :
  has_body func_bodies "coq.ConstDecl.CoqDecl"
    "func() string"
    "{ var pp buffer pp.AddComment(d.Comment) indent := pp.Block(""Definition "", ""%s : expr := %s."", d.Name, d.Val.Coq(false)) pp.Indent(-indent) if d.AddTypes { pp.Add(""Theorem %s_t Γ : Γ ⊢ %s : %s."", d.Name, d.Name, d.Type.Coq(true)) pp.AddLine(""Proof. typecheck. Qed."") } return pp.Build() }" = true.
Proof. vm_compute. reflexivity. Qed.

Example O05_body_coq_File_Write :
  has_body func_bodies "coq.File.Write"
    "func(w io.Writer)"
    "{ fmt.Fprintln(w, f.autogeneratedNotice().CoqDecl()) fmt.Fprintln(w, strings.Trim(importHeader, ""\n"")) fmt.Fprintln(w, f.Imports.PrintImports()) if len(f.Imports) > 0 { fmt.Fprintln(w) } fmt.Fprintln(w, f.ImportHeader) fmt.Fprintln(w) decls := make(map[string]bool) for i, d := range f.Decls { decl := d.CoqDecl() _, isComment := d.(CommentDecl) if isComment || !decls[decl] { fmt.Fprintln(w, decl) decls[decl] = true if i != len(f.Decls)-1 { fmt.Fprintln(w) } } } fmt.Fprint(w, f.Footer) }" = true.
Proof. vm_compute. reflexivity. Qed.

Example O05_body_goose_Ctx_basicLiteral :
  has_body func_bodies "goose.Ctx.basicLiteral"
    "func(e *ast.BasicLit) coq.Expr"
    "{ if e.Kind == token.STRING { v := ctx.info.Types[e].Value s := constant.StringVal(v) if strings.ContainsRune(s, '""') { ctx.unsupported(e, ""string literals with quotes"") } if strings.ContainsRune(s, '\n') { ctx.unsupported(e, ""string literals with newlines"") } return coq.StringLiteral{Value: s} } if e.Kind == token.INT { info, _ := getIntegerType(ctx.typeOf(e)) v := ctx.info.Types[e].Value if v.Kind() != constant.Int { ctx.unsupported(e, ""int literal used at type %v"", ctx.typeOf(e)) return nil } n, ok := constant.Uint64Val(v) if !ok { ctx.unsupported(e, ""int literals must be positive numbers"") return nil } if info.isUint64() { return coq.IntLiteral{Value: n} } else if info.isUint32() { return coq.Int32Literal{Value: uint32(n)} } else if info.isUint8() { return coq.ByteLiteral{Value: uint8(n)} } } ctx.unsupported(e, ""literal with kind %s"", e.Kind) return nil }" = true.
Proof. vm_compute. reflexivity. Qed.

Example O05_body_goose_Ctx_addSourceFile :
  has_body func_bodies "goose.Ctx.addSourceFile"
    "func(node ast.Node, comment *string)"
    "{ if !ctx.AddSourceFileComments { return } if *comment != """" { *comment += ""\n\n "" } *comment += fmt.Sprintf(""go: %s"", ctx.where(node)) }" = true.
Proof. vm_compute. reflexivity. Qed.

Example O05_body_goose_addSourceDoc :
  has_body func_bodies "goose.addSourceDoc"
    "func(doc *ast.CommentGroup, comment *string)"
    "{ if doc == nil { return } if *comment != """" { *comment += ""\n\n"" } *comment += strings.TrimSuffix(doc.Text(), ""\n"") }" = true.
Proof. vm_compute. reflexivity. Qed.
