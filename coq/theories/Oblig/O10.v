(* Per-run obligations of C10 on the regenerated skeletons of machine/disk/mem.go:
   the lock structure assumed by Conc/MemDiskConc.v is the code's. *)
From Coq Require Import String List Bool.
From GV Require Import Base.Skel Base.Tables Conc.LockShape.
From GVGen Require Import GenSkeletons GenBodies.
Import ListNotations.
Open Scope string_scope.

(* ReadTo: element accesses of d.blocks only after d.l.RLock(); defer d.l.RUnlock(); nothing written to d.blocks *)
Example O10_readto_rlocked : read_guarded_by "d.l.RLock" "d.l.RUnlock" "d.blocks[" sk_disk_MemDisk_ReadTo = true.
Proof. vm_compute. reflexivity. Qed.
(* Write: element accesses only after d.l.Lock(); defer d.l.Unlock() *)
Example O10_write_locked : guarded_by "d.l.Lock" "d.l.Unlock" "d.blocks[" sk_disk_MemDisk_Write = true.
Proof. vm_compute. reflexivity. Qed.
(* Read goes through ReadTo on a fresh buffer and touches no block itself *)
Example O10_read_delegates :
  never_mentions "d.blocks" sk_disk_MemDisk_Read = true /\
  existsb (fun s => match s with SCall [] "d.ReadTo" ["a"; "buf"] => true | _ => false end) sk_disk_MemDisk_Read = true /\
  existsb (fun s => match s with SCall ["buf"] "make" ["Block"; "BlockSize"] => true | _ => false end) sk_disk_MemDisk_Read = true.
Proof. vm_compute. repeat split. Qed.
(* Size, Barrier, Close: no element access (len(d.blocks) reads the immutable slice header only) *)
Example O10_size_no_element_access : never_mentions "d.blocks[" sk_disk_MemDisk_Size = true.
Proof. vm_compute. reflexivity. Qed.
Example O10_barrier_close_empty : sk_disk_MemDisk_Barrier = [] /\ sk_disk_MemDisk_Close = [].
Proof. vm_compute. split; reflexivity. Qed.
(* the slice header and the lock pointer are never reassigned by any method *)
Example O10_header_immutable :
  all_methods "disk.MemDisk." (fun ss => never_writes "d.blocks =" ss && negb (existsb (writes_to "d.l") ss)
                                         && negb (existsb (fun s => match s with SAssign lhs _ => existsb (String.eqb "d.blocks") lhs | _ => false end) ss)) skeletons = true.
Proof. vm_compute. reflexivity. Qed.
(* the struct is what the model assumes: one RWMutex pointer and the block array *)
Example O10_struct :
  has_body type_decls "disk.MemDisk" "def" "struct { l *sync.RWMutex blocks [][BlockSize]byte }" = true.
Proof. vm_compute. reflexivity. Qed.
(* the set of methods is the modelled one (a new method would escape the lock analysis) *)
Example O10_method_set :
  map fst (filter (fun kv => prefix "disk.MemDisk." (fst kv)) skeletons) =
  ["disk.MemDisk.ReadTo"; "disk.MemDisk.Read"; "disk.MemDisk.Write"; "disk.MemDisk.Size"; "disk.MemDisk.Barrier"; "disk.MemDisk.Close"].
Proof. vm_compute. reflexivity. Qed.
(* FileDisk keeps no mutable state in the process: its methods only read d.fd and d.numBlocks *)
Example O10_filedisk_stateless :
  all_methods "disk.FileDisk." (fun ss => negb (existsb (writes_to "d.") ss)) skeletons = true.
Proof. vm_compute. reflexivity. Qed.
(* ... and has nothing to keep it in: two scalar fields copied into every (value) receiver, no
   pointer, map, slice or lock through which one call could leave something for another; its
   method set is the modelled one and ReadTo/Write mention the receiver only as d.fd / d.numBlocks *)
Example O10_filedisk_struct :
  has_body type_decls "disk.FileDisk" "def" "struct { fd int numBlocks uint64 }" = true.
Proof. vm_compute. reflexivity. Qed.
Example O10_filedisk_method_set :
  map fst (filter (fun kv => prefix "disk.FileDisk." (fst kv)) skeletons) =
  ["disk.FileDisk.ReadTo"; "disk.FileDisk.Read"; "disk.FileDisk.Write"; "disk.FileDisk.Size"; "disk.FileDisk.Barrier"; "disk.FileDisk.Close"].
Proof. vm_compute. reflexivity. Qed.
(* FileDisk transfers are positional (pread/pwrite), never through the shared file offset *)
Example O10_filedisk_positional :
  all_methods "disk.FileDisk." (fun ss => never_mentions "unix.Seek" ss && never_mentions "unix.Read(" ss && never_mentions "unix.Write(" ss) skeletons = true
  /\ existsb (mentions "unix.Pread") sk_disk_FileDisk_ReadTo = true
  /\ existsb (mentions "unix.Pwrite") sk_disk_FileDisk_Write = true.
Proof. vm_compute. repeat split. Qed.
