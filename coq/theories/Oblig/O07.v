(* Per-run obligations O07: error reporting and recovery, and every site of the translator that can raise a Go panic (explicit panics, unchecked type assertions).
   The expected texts below were frozen from the source the models in this
   development were written against (bin/mkoblig.py); coq/gen is regenerated
   from /repo on every run and these Examples are re-checked by the kernel. *)
From Coq Require Import String List Bool.
From GV Require Import Base.Tables.
From GVGen Require Import GenBodies GenInventory GenTables.
Import ListNotations.
Open Scope string_scope.

Example O07_body_goose_Ctx_declsOrError :
  has_body func_bodies "goose.Ctx.declsOrError"
    "func(stmt ast.Decl) (decls []coq.Decl, err error)"
    "{ defer func() { if r := recover(); r != nil { if gooseErr, ok := r.(gooseError); ok { err = gooseErr.err } else { panic(r) } } }() return ctx.maybeDecls(stmt), nil }" = true.
Proof. vm_compute. reflexivity. Qed.

Example O07_body_goose_Ctx_Decls :
  has_body func_bodies "goose.Ctx.Decls"
    "func(fs ...NamedFile) (imports coq.ImportDecls, decls []coq.Decl, errs []error)"
    "{ declGroups := make(map[declId][]coq.Decl) declDeps := make(map[declId][]string) nameDecls := make(map[string]declId) generated := make(map[declId]bool) for fi, f := range fs { for di, d := range f.Ast.Decls { ctx.dep = &depTracker{} id := declId{fi, di} newDecls, err := ctx.declsOrError(d) if err != nil { errs = append(errs, err) } declGroups[id] = newDecls declDeps[id] = ctx.dep.deps for _, n := range ctx.dep.names { nameDecls[n] = id } } } var lastFile int var processDecl func(id declId, ident string) processDecl = func(id declId, ident string) { if generated[id] { return } generated[id] = true for _, dep := range declDeps[id] { depid, ok := nameDecls[dep] if ok { processDecl(depid, dep) } } if lastFile != id.fileIdx && ident != """" { f := fs[id.fileIdx] decls = append(decls, coq.NewComment(fmt.Sprintf(""%s from %s"", ident, f.Name()))) lastFile = id.fileIdx } newDecls, newImports := filterImports(declGroups[id]) decls = append(decls, newDecls...) imports = append(imports, newImports...) } for fi, f := range fs { if len(fs) > 1 { decls = append(decls, coq.NewComment(f.Name())) } if f.Ast.Doc != nil { decls = append(decls, coq.NewComment(f.Ast.Doc.Text())) } lastFile = fi for di := range f.Ast.Decls { processDecl(declId{fi, di}, """") } } return }" = true.
Proof. vm_compute. reflexivity. Qed.

Example O07_body_goose_MultipleErrors_Error :
  has_body func_bodies "goose.MultipleErrors.Error"
    "func() string"
    "{ var errs []string for _, e := range es { errs = append(errs, e.Error()) } errs = append(errs, fmt.Sprintf(""%d errors"", len(es))) return strings.Join(errs, ""\n\n"") }" = true.
Proof. vm_compute. reflexivity. Qed.

Example O07_body_goose_pkgErrors :
  has_body func_bodies "goose.pkgErrors"
    "func(errors []packages.Error) error"
    "{ var errs []error for _, err := range errors { errs = append(errs, err) } return MultipleErrors(errs) }" = true.
Proof. vm_compute. reflexivity. Qed.

Example O07_body_goose_TranslationConfig_translatePackage :
  has_body func_bodies "goose.TranslationConfig.translatePackage"
    "func(pkg *packages.Package) (coq.File, error)"
    "{ if len(pkg.Errors) > 0 { return coq.File{}, errors.Errorf( ""could not load package %v:\n%v"", pkg.PkgPath, pkgErrors(pkg.Errors)) } if ffis := ffisUsed(pkg); len(ffis) > 1 { return coq.File{}, errors.Errorf( ""could not translate package %v: multiple ffis used %v"", pkg.PkgPath, ffis) } ctx := NewPkgCtx(pkg, tr) files := sortedFiles(pkg.CompiledGoFiles, pkg.Syntax) coqFile := coq.File{ PkgPath: pkg.PkgPath, GoPackage: pkg.Name, } coqFile.ImportHeader, coqFile.Footer = ffiHeaderFooter(ctx.PkgConfig.Ffi) imports, decls, errs := ctx.Decls(files...) coqFile.Imports = imports coqFile.Decls = decls if len(errs) != 0 { return coqFile, errors.Wrap(MultipleErrors(errs), ""conversion failed"") } return coqFile, nil }" = true.
Proof. vm_compute. reflexivity. Qed.

Example O07_body_goose_errorReporter_prefixed :
  has_body func_bodies "goose.errorReporter.prefixed"
    "func(prefix string, n ast.Node, msg string, args ...interface{})"
    "{ where := r.fset.Position(n.Pos()) what := r.printGo(n) formatted := fmt.Sprintf(msg, args...) err := &ConversionError{ Category: prefix, Message: formatted, GoCode: what, GooseCaller: getCaller(2), GoSrcFile: where.String(), Pos: n.Pos(), End: n.End(), } panic(gooseError{err: err}) }" = true.
Proof. vm_compute. reflexivity. Qed.

Example O07_body_goose_errorReporter_printGo :
  has_body func_bodies "goose.errorReporter.printGo"
    "func(n ast.Node) string"
    "{ if f, ok := n.(*ast.Field); ok { return r.printField(f) } if fl, ok := n.(*ast.FieldList); ok { var fields []string for _, f := range fl.List { fields = append(fields, r.printField(f)) } return strings.Join(fields, ""; "") } var what bytes.Buffer err := printer.Fprint(&what, r.fset, n) if err != nil { panic(err.Error()) } return what.String() }" = true.
Proof. vm_compute. reflexivity. Qed.

Example O07_body_goose_errorReporter_printField :
  has_body func_bodies "goose.errorReporter.printField"
    "func(f *ast.Field) string"
    "{ var what bytes.Buffer var names []string for _, n := range f.Names { names = append(names, n.Name) } err := printer.Fprint(&what, r.fset, f.Type) if err != nil { panic(err.Error()) } return fmt.Sprintf(""%s %s"", strings.Join(names, "", ""), what.String()) }" = true.
Proof. vm_compute. reflexivity. Qed.

Example O07_body_goose_ConversionError_Error :
  has_body func_bodies "goose.ConversionError.Error"
    "func() string"
    "{ lines := []string{ fmt.Sprintf(""[%s]: %s"", e.Category, e.Message), e.GoCode, fmt.Sprintf("" %s"", e.GooseCaller), fmt.Sprintf("" src: %s"", e.GoSrcFile), } return strings.Join(lines, ""\n"") }" = true.
Proof. vm_compute. reflexivity. Qed.

Example O07_body_goose_getCaller :
  has_body func_bodies "goose.getCaller"
    "func(skip int) string"
    "{ _, file, line, ok := runtime.Caller(1 + skip) if !ok { return ""<no caller>"" } return fmt.Sprintf(""%s:%d"", file, line) }" = true.
Proof. vm_compute. reflexivity. Qed.

Example O07_body_goose_errorReporter_unsupported :
  has_body func_bodies "goose.errorReporter.unsupported"
    "func(n ast.Node, msg string, args ...interface{})"
    "{ r.prefixed(""unsupported"", n, msg, args...) }" = true.
Proof. vm_compute. reflexivity. Qed.

Example O07_body_goose_errorReporter_todo :
  has_body func_bodies "goose.errorReporter.todo"
    "func(n ast.Node, msg string, args ...interface{})"
    "{ r.prefixed(""todo"", n, msg, args...) }" = true.
Proof. vm_compute. reflexivity. Qed.

Example O07_body_goose_errorReporter_futureWork :
  has_body func_bodies "goose.errorReporter.futureWork"
    "func(n ast.Node, msg string, args ...interface{})"
    "{ r.prefixed(""future"", n, msg, args...) }" = true.
Proof. vm_compute. reflexivity. Qed.

Example O07_body_goose_errorReporter_nope :
  has_body func_bodies "goose.errorReporter.nope"
    "func(n ast.Node, msg string, args ...interface{})"
    "{ r.prefixed(""impossible(go)"", n, msg, args...) }" = true.
Proof. vm_compute. reflexivity. Qed.

Example O07_body_goose_errorReporter_noExample :
  has_body func_bodies "goose.errorReporter.noExample"
    "func(n ast.Node, msg string, args ...interface{})"
    "{ r.prefixed(""impossible(no-examples)"", n, msg, args...) }" = true.
Proof. vm_compute. reflexivity. Qed.

Example O07_body_goose_sliceElem :
  has_body func_bodies "goose.sliceElem"
    "func(t types.Type) types.Type"
    "{ if t, ok := t.(*types.Slice); ok { return t.Elem() } panic(fmt.Errorf(""expected slice type, got %v"", t)) }" = true.
Proof. vm_compute. reflexivity. Qed.

Example O07_body_goose_ptrElem :
  has_body func_bodies "goose.ptrElem"
    "func(t types.Type) types.Type"
    "{ if t, ok := t.(*types.Pointer); ok { return t.Elem() } panic(fmt.Errorf(""expected pointer type, got %v"", t)) }" = true.
Proof. vm_compute. reflexivity. Qed.

Example O07_body_goose_Ctx_maybeDecls :
  has_body func_bodies "goose.Ctx.maybeDecls"
    "func(d ast.Decl) []coq.Decl"
    "{ switch d := d.(type) { case *ast.FuncDecl: var cvs []coq.Decl if !ctx.SkipInterfaces { if d.Body == nil { ctx.unsupported(d, ""function declaration with no body"") } for _, stmt := range d.Body.List { cvs = ctx.stmtInterface(cvs, stmt) } } fd := ctx.funcDecl(d) var results []coq.Decl if len(cvs) > 0 { results = append(cvs, fd) } else { results = []coq.Decl{fd} } return results case *ast.GenDecl: switch d.Tok { case token.IMPORT: return ctx.imports(d.Specs) case token.CONST: return ctx.constDecl(d) case token.VAR: return ctx.globalVarDecl(d) case token.TYPE: if len(d.Specs) > 1 { ctx.noExample(d, ""multiple specs in a type decl"") } spec := d.Specs[0].(*ast.TypeSpec) ctx.dep.addName(spec.Name.Name) ty := ctx.typeDecl(d.Doc, spec) return []coq.Decl{ty} default: ctx.nope(d, ""unknown token type in decl"") } case *ast.BadDecl: ctx.nope(d, ""bad declaration in type-checked code"") default: ctx.nope(d, ""top-level decl"") } return nil }" = true.
Proof. vm_compute. reflexivity. Qed.

Example O07_body_goosecmd_translate :
  has_body func_bodies "goosecmd.translate"
    "func(pkgPatterns []string, outRootDir string, modDir string, ignoreErrors bool, tr goose.TranslationConfig)"
    "{ red := color.New(color.FgRed).SprintFunc() fs, errs, patternError := tr.TranslatePackages(modDir, pkgPatterns...) if patternError != nil { fmt.Fprintln(os.Stderr, red(patternError.Error())) os.Exit(1) } someError := false for i, f := range fs { err := errs[i] if err != nil { fmt.Fprintln(os.Stderr, red(err.Error())) someError = true if !ignoreErrors || f.PkgPath == """" { continue } } outFile := path.Join(outRootDir, coq.ImportToPath(f.PkgPath, f.GoPackage)) outDir := path.Dir(outFile) err = os.MkdirAll(outDir, 0777) if err != nil { fmt.Fprintln(os.Stderr, err.Error()) fmt.Fprintln(os.Stderr, red(""could not create output directory"")) } err = writeFileIfChanged(outFile, coqFileContents(f), 0666) if err != nil { fmt.Fprintln(os.Stderr, err.Error()) fmt.Fprintln(os.Stderr, red(""could not write output"")) os.Exit(1) } } if someError { os.Exit(1) } }" = true.
Proof. vm_compute. reflexivity. Qed.

Example O07_inv_panic_sites :
  list_eqb panic_sites [
  "goose.getFfi | fmt.Sprintf(""multiple ffis used %v"", seenFfis)";
  "goose.Ctx.printGo | err.Error()";
  "goose.Ctx.selectorMethod | ""expected struct""";
  "goose.Ctx.coqRecurFunc | ""type checker doesn't have func""";
  "goose.Ctx.identExpr | """"";
  "goose.Ctx.stmts | ""bad ExprValUsage""";
  "goose.Ctx.ifStmt | ""if statement with unexpected kind of else branch""";
  "goose.Ctx.stmt | ""ExprValLocal usage should always be finalized""";
  "goose.stringLitValue | ""unexpected non-string literal""";
  "goose.stringLitValue | ""unexpected string literal value: "" + err.Error()";
  "goose.Ctx.declsOrError | r";
  "goose.sortedFiles | ""sortedFiles(): fileNames must match fileAsts""";
  "goose.errorReporter.printField | err.Error()";
  "goose.errorReporter.printGo | err.Error()";
  "goose.errorReporter.prefixed | gooseError{err: err}";
  "goose.sliceElem | fmt.Errorf(""expected slice type, got %v"", t)";
  "goose.ptrElem | fmt.Errorf(""expected pointer type, got %v"", t)";
  "coq.BinaryExpr.Coq | fmt.Sprintf(""unknown binop %d"", be.Op)";
  "coq.Binding.AddTo | ""no support for destructuring more than 4 return values"""
] = true.
Proof. vm_compute. reflexivity. Qed.

Example O07_inv_assert_sites :
  list_eqb assert_sites [
  "goose.Ctx.packageMethod | f.X.(*ast.Ident)";
  "goose.Ctx.selectorMethod | deref.(*types.Named)";
  "goose.Ctx.instantiatedAtOwnTypeParams | fun.Type().(*types.Signature)";
  "goose.Ctx.coqRecurFunc | obj.(*types.Func)";
  "goose.Ctx.varDeclStmt | decl.Specs[0].(*ast.ValueSpec)";
  "goose.Ctx.constDecl | spec.(*ast.ValueSpec)";
  "goose.Ctx.globalVarDecl | spec.(*ast.ValueSpec)";
  "goose.Ctx.imports | s.(*ast.ImportSpec)";
  "goose.Ctx.maybeDecls | d.Specs[0].(*ast.TypeSpec)";
  "goose.Ctx.mapType | ctx.typeOf(e).Underlying().(*types.Map)";
  "goose.Ctx.arrayType | ctx.typeOf(e).(*types.Array)"
] = true.
Proof. vm_compute. reflexivity. Qed.

Example O07_inv_recover_sites :
  list_eqb recover_sites [
  "goose.Ctx.declsOrError"
] = true.
Proof. vm_compute. reflexivity. Qed.
