(* Per-run obligations O16: machine/prims.go primitives and the pinned delegate of WaitTimeout are the modelled code.
   The expected texts below were frozen from the source the models in this
   development were written against (bin/mkoblig.py); coq/gen is regenerated
   from /repo on every run and these Examples are re-checked by the kernel. *)
From Coq Require Import String List Bool.
From GV Require Import Base.Tables.
From GVGen Require Import GenBodies.
Open Scope string_scope.

Example O16_body_machine_UInt64ToString :
  has_body func_bodies "machine.UInt64ToString"
    "func(x uint64) string"
    "{ return fmt.Sprintf(""%d"", x) }" = true.
Proof. vm_compute. reflexivity. Qed.

Example O16_body_machine_MapClear :
  has_body func_bodies "machine.MapClear"
    "func[M ~map[K]V, K comparable, V any](m M)"
    "{ clear(m) }" = true.
Proof. vm_compute. reflexivity. Qed.

Example O16_body_machine_Assume :
  has_body func_bodies "machine.Assume"
    "func(c bool)"
    "{ if !c { panic(""Assume condition violated"") } }" = true.
Proof. vm_compute. reflexivity. Qed.

Example O16_body_machine_Assert :
  has_body func_bodies "machine.Assert"
    "func(c bool)"
    "{ if !c { panic(""Assert condition violated"") } }" = true.
Proof. vm_compute. reflexivity. Qed.

Example O16_body_machine_WaitTimeout :
  has_body func_bodies "machine.WaitTimeout"
    "func(cond *sync.Cond, timeoutMs uint64)"
    "{ primitive.WaitTimeout(cond, timeoutMs) }" = true.
Proof. vm_compute. reflexivity. Qed.

Example O16_body_primitive_WaitTimeout :
  has_body func_bodies "primitive.WaitTimeout"
    "func(cond *sync.Cond, timeoutMs uint64)"
    "{ done := make(chan struct{}) go func() { cond.Wait() cond.L.Unlock() close(done) }() select { case <-time.After(time.Duration(timeoutMs) * time.Millisecond): cond.L.Lock() return case <-done: cond.L.Lock() return } }" = true.
Proof. vm_compute. reflexivity. Qed.
