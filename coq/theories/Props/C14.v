(* C14 — Filesystem operations are linearizable under concurrency.
   Property theorems only. *)
From Coq Require Import List ZArith Lia.
From GV Require Import Fs.Fs Fs.FsProofs Conc.Lin Conc.SingleLock Conc.LinCheck Conc.FsConc.
Import ListNotations.

(* MemFs: every method runs as one atomic step under the mutex (shape checked
   per run in Oblig/O14.v), hence — for every number of client goroutines,
   every operation sequence and every schedule — the history is linearizable
   w.r.t. the sequential MemFs model ... *)
Theorem C14_memfs_linearizable : forall c,
  reachable fmd fprog finit fresult memfs_init c ->
  linearizable memfs_step memfs_init (history (tr c)).
Proof. exact memfs_linearizable. Qed.
Print Assumptions C14_memfs_linearizable.

(* ... and w.r.t. the reference model whenever the operations, in the order of
   their linearization points, respect the documented preconditions. *)
Theorem C14_memfs_linearizable_ref : forall c,
  reachable fmd fprog finit fresult memfs_init c ->
  exists tau f, history tau = history (tr c) /\ wf_tr tau f /\
    (exists a, legal memfs_step memfs_init tau a) /\
    (valid_history (lin_ops tau) -> exists b, legal ref_step fs_init tau b).
Proof. exact memfs_linearizable_ref. Qed.
Print Assumptions C14_memfs_linearizable_ref.

(* consequences on the reference model, for ANY two operations linearized in
   either order: concurrent Create of one name succeeds exactly once *)
Theorem C14_create_once : forall s d n, mem_nat d (dirs s) = true ->
  alookup path_eqb (d, n) (ents s) = None ->
  exists fd, snd (ref_step s (FCreate d n)) = OFd fd /\
             snd (ref_step (fst (ref_step s (FCreate d n))) (FCreate d n)) = ONoFd.
Proof. exact ref_create_twice. Qed.
Print Assumptions C14_create_once.

(* appends through distinct descriptors are applied atomically, none is lost:
   in either order both data are in the file, contiguous *)
Theorem C14_appends_not_lost : forall s fd1 fd2 i d1 d2, fd1 <> fd2 ->
  alookup Nat.eqb fd1 (fdt s) = Some (i, true) -> alookup Nat.eqb fd2 (fdt s) = Some (i, true) ->
  data_of i (fst (ref_step (fst (ref_step s (FAppend fd1 d1))) (FAppend fd2 d2))) = (data_of i s ++ d1) ++ d2.
Proof. exact ref_two_appends. Qed.
Print Assumptions C14_appends_not_lost.

(* descriptor numbers handed out are distinct: the second allocation differs from the first *)
Theorem C14_descriptors_distinct : forall s o1 o2 fd1 fd2, ref_inv s ->
  snd (ref_step s o1) = OFd fd1 -> snd (ref_step (fst (ref_step s o1)) o2) = OFd fd2 -> fd1 <> fd2.
Proof. exact ref_two_fds_distinct. Qed.
Print Assumptions C14_descriptors_distinct.

(* recorded histories are judged by a sound and complete checker *)
Theorem C14_checker_decides : forall erased ts h, threads_in ts h ->
  (fs_lin_check erased ts h = true <->
   linearizable (if erased then ref_step_erased else ref_step) fs_init (rev h)).
Proof. exact fs_lin_check_correct. Qed.
Print Assumptions C14_checker_decides.

(* Non-vacuity: a reachable concurrent configuration (two clients racing to create one name) *)
Example C14_example_reachable :
  exists c, reachable fmd fprog finit fresult memfs_init c /\
            history (tr c) = [HInv 1%nat (FCreate 0 0); HInv 0%nat (FCreate 0 0)].
Proof.
  eexists. split.
  - eapply r_step; [eapply r_step; [apply r_init|]|].
    + apply (s_invoke _ _ _ _ _ 0%nat (FCreate 0 0)). reflexivity.
    + apply (s_invoke _ _ _ _ _ 1%nat (FCreate 0 0)). reflexivity.
  - reflexivity.
Qed.
