(* C15 — Integer encoding is little-endian, framed and invertible.
   Property theorems only; every proof is [exact lemma]. *)
From Coq Require Import List ZArith Lia.
From GV Require Import Enc.Enc Enc.EncProofs.
Import ListNotations.
Open Scope Z_scope.

(* Put writes exactly the w little-endian bytes into the first w bytes and
   leaves every other byte untouched (w = 8 for UInt64Put, 4 for UInt32Put). *)
Theorem C15_put_frame : forall w b v, 0 <= v -> (w <= length b)%nat ->
  put_le w b v = Some (le_bytes w v ++ skipn w b).
Proof. exact put_le_frame. Qed.
Print Assumptions C15_put_frame.

(* The layout: byte i is (v / 2^(8 i)) mod 256 — little-endian. *)
Theorem C15_byte_i : forall w v i, 0 <= v -> (i < w)%nat ->
  nth i (le_bytes w v) 0 = (v / 2 ^ (8 * Z.of_nat i)) mod 256.
Proof. exact le_bytes_nth. Qed.
Print Assumptions C15_byte_i.

(* Get inverts Put for every value of the width and every long-enough buffer. *)
Theorem C15_get_put : forall w b v, 0 <= v < 2 ^ (8 * Z.of_nat w) -> (w <= length b)%nat ->
  forall b', put_le w b v = Some b' -> get_le w b' = Some v.
Proof. exact get_put. Qed.
Print Assumptions C15_get_put.

(* Get reads only the first w bytes. *)
Theorem C15_get_prefix_only : forall w b b', (w <= length b)%nat -> (w <= length b')%nat ->
  firstn w b = firstn w b' -> get_le w b = get_le w b'.
Proof. exact get_le_only_prefix. Qed.
Print Assumptions C15_get_prefix_only.

(* Put (Get b) = b: the encoding is a bijection between w-byte prefixes and values. *)
Theorem C15_put_get : forall w b, wf_bytes b = true -> (w <= length b)%nat ->
  forall v, get_le w b = Some v -> put_le w b v = Some b.
Proof. exact put_get. Qed.
Print Assumptions C15_put_get.

(* Too-short buffers are refused (None: nothing is written — the model's
   refusal carries no buffer, the caller's buffer is the unchanged input). *)
Theorem C15_short_put : forall w b v, (length b < w)%nat -> put_le w b v = None.
Proof. exact put_le_short. Qed.
Theorem C15_short_get : forall w b, (length b < w)%nat -> get_le w b = None.
Proof. exact get_le_short. Qed.
Theorem C15_put_refuses_only_short : forall w b v, put_le w b v = None <-> (length b < w)%nat.
Proof. exact put_le_refuses_iff. Qed.
Print Assumptions C15_short_put.
Print Assumptions C15_short_get.
Print Assumptions C15_put_refuses_only_short.

(* Non-vacuity: a concrete buffer and value meet the hypotheses and the
   instance used by the code (w = 8) computes as expected. *)
Example C15_example :
  put64 [9;9;9;9;9;9;9;9;7;7] 0x0102030405060708 = Some [8;7;6;5;4;3;2;1;7;7]
  /\ get64 [8;7;6;5;4;3;2;1;7;7] = Some 0x0102030405060708
  /\ put32 [9;9;9] 5 = None.
Proof. vm_compute. repeat split. Qed.
