(* C02 — outside the subset goose rejects instead of mistranslating.
   Property theorems only.  Tr/MiniGo.v models goose's decision to translate
   or reject (None) for the core fragment extended with constructs outside the
   subset (assignment to :=-bound variables, op-assignments goose has no
   operator for, &^, returns outside tail position, early returns with an else
   branch). *)
From Coq Require Import String List ZArith.
From GV Require Import Lang.GlSyntax Lang.GlSem Tr.MiniGo Tr.MiniGoProofs.
Import ListNotations.

(* rejected, or faithful: for every function body of the fragment either the
   translator model reports an error, or whatever Go computes the emitted body
   computes *)
Theorem C02_rejected_or_faithful : forall tf fn,
  match tr_block tf (params_env (f_params fn)) Returned (f_body fn) with
  | None => True
  | Some e =>
      forall n args v s', length args = length (f_params fn) ->
        go_call n fn args = OReturn v s' ->
        exists m, eval m (close (cs_of (rev (combine (map fst (f_params fn)) (map Imm args)))) e) state0 = RVal v s'
  end.
Proof.
  intros tf fn. destruct (tr_block tf _ Returned (f_body fn)) as [e|] eqn:E; [|exact I].
  intros n args v s' Hlen Hgo. exact (body_correct n tf fn e args v s' E Hlen Hgo).
Qed.
Print Assumptions C02_rejected_or_faithful.

(* the same at every position: any statement list, under any usage, in any environment *)
Theorem C02_rejected_or_faithful_everywhere : forall n tf G u b r s,
  agree G r s ->
  match tr_block tf G u b with
  | None => True
  | Some e => post u e r s (go_block n r s b)
  end.
Proof.
  intros n tf G u b r s Hag. destruct (tr_block tf G u b) as [e|] eqn:E; [|exact I].
  exact (block_correct n tf G u b e r s E Hag).
Qed.
Print Assumptions C02_rejected_or_faithful_everywhere.

(* the guards of the fragment *)
Theorem C02_assignment_to_letbound_rejected : forall G x t e rest tf u,
  tlookup x G = Some (false, t) -> tr_block tf G u (BCons (SAssign x e) rest) = None.
Proof. exact rejects_assign_to_letbound. Qed.
Print Assumptions C02_assignment_to_letbound_rejected.

Theorem C02_unsupported_opassign_rejected : forall G x e rest tf u op,
  assign_op op = false -> tr_block tf G u (BCons (SOpAssign op x e) rest) = None.
Proof. exact rejects_unsupported_opassign. Qed.
Print Assumptions C02_unsupported_opassign_rejected.

Theorem C02_return_before_end_rejected : forall G e st rest tf u,
  tr_block tf G u (BCons (SReturn e) (BCons st rest)) = None.
Proof. exact rejects_return_before_end. Qed.
Print Assumptions C02_return_before_end_rejected.

Theorem C02_return_outside_tail_rejected : forall G e tf, tr_block tf G Local (BCons (SReturn e) BNil) = None.
Proof. exact rejects_return_outside_tail. Qed.
Print Assumptions C02_return_outside_tail_rejected.

Theorem C02_early_return_with_else_rejected : forall G c th el st rest tf u,
  tr_expr G c <> None -> ends_with_return (bsize th) th = true -> is_nil el = false ->
  tr_block tf G u (BCons (SIf c th (Some el)) (BCons st rest)) = None.
Proof. exact rejects_early_return_with_else. Qed.
Print Assumptions C02_early_return_with_else_rejected.
