(* C02 — outside the subset goose rejects instead of mistranslating.
   Property theorems only.  Tr/MiniGo.v models goose's decision to translate
   or reject (None) for the core fragment extended with constructs outside the
   subset (assignment to :=-bound variables, op-assignments goose has no
   operator for, &^, returns outside tail position, early returns with an else
   branch). *)
From Coq Require Import String List ZArith.
From GV Require Import Lang.GlSyntax Lang.GlSem Tr.MiniGo Tr.MiniGoProofs.
Import ListNotations.

(* rejected, or faithful: for every function body of the fragment either the
   translator model reports an error, or whatever Go computes the emitted body
   computes *)
Theorem C02_rejected_or_faithful : forall tf fn,
  match tr_block tf (params_env (f_params fn)) Returned (f_body fn) with
  | None => True
  | Some e =>
      forall n args v s', length args = length (f_params fn) ->
        go_call n fn args = OReturn v s' ->
        exists m, eval m (close (cs_of (rev (combine (map fst (f_params fn)) (map Imm args)))) e) state0 = RVal v s'
  end.
Proof.
  intros tf fn. destruct (tr_block tf _ Returned (f_body fn)) as [e|] eqn:E; [|exact I].
  intros n args v s' Hlen Hgo. exact (body_correct n tf fn e args v s' E Hlen Hgo).
Qed.
Print Assumptions C02_rejected_or_faithful.

(* the same at every position: any statement list, under any usage, in any environment *)
Theorem C02_rejected_or_faithful_everywhere : forall n tf G u b r s,
  agree G r s ->
  match tr_block tf G u b with
  | None => True
  | Some e => post u e r s (go_block n r s b)
  end.
Proof.
  intros n tf G u b r s Hag. destruct (tr_block tf G u b) as [e|] eqn:E; [|exact I].
  exact (block_correct n tf G u b e r s E Hag).
Qed.
Print Assumptions C02_rejected_or_faithful_everywhere.

(* the guards of the fragment *)
Theorem C02_assignment_to_letbound_rejected : forall G x t e rest tf u,
  tlookup x G = Some (false, t) -> tr_block tf G u (BCons (SAssign x e) rest) = None.
Proof. exact rejects_assign_to_letbound. Qed.
Print Assumptions C02_assignment_to_letbound_rejected.

Theorem C02_unsupported_opassign_rejected : forall G x e rest tf u op,
  assign_op op = false -> tr_block tf G u (BCons (SOpAssign op x e) rest) = None.
Proof. exact rejects_unsupported_opassign. Qed.
Print Assumptions C02_unsupported_opassign_rejected.

Theorem C02_return_before_end_rejected : forall G e st rest tf u,
  tr_block tf G u (BCons (SReturn e) (BCons st rest)) = None.
Proof. exact rejects_return_before_end. Qed.
Print Assumptions C02_return_before_end_rejected.

Theorem C02_return_outside_tail_rejected : forall G e tf, tr_block tf G Local (BCons (SReturn e) BNil) = None.
Proof. exact rejects_return_outside_tail. Qed.
Print Assumptions C02_return_outside_tail_rejected.

Theorem C02_early_return_with_else_rejected : forall G c th el st rest tf u,
  tr_expr G c <> None -> ends_with_return (bsize th) th = true -> is_nil el = false ->
  tr_block tf G u (BCons (SIf c th (Some el)) (BCons st rest)) = None.
Proof. exact rejects_early_return_with_else. Qed.
Print Assumptions C02_early_return_with_else_rejected.

(* ---- the loop fragment (Tr/MiniGoL.v: for loops, break/continue, nested blocks) *)
From GV Require Import Tr.MiniGoL Tr.MiniGoLProofs Tr.MiniGoLBlocks Tr.MiniGoLFunc.

(* rejected, or faithful, for whole functions of the loop fragment *)
Theorem C02_loops_rejected_or_faithful : forall fn,
  match trl_func fn with
  | None => True
  | Some f =>
      forall n args v s',
        NoDup (lf_name fn :: map fst (lf_params fn)) -> lf_params fn <> [] ->
        length args = length (lf_params fn) ->
        lgo_call n fn args = LRet v s' ->
        exists m, eval m (fold_left App (map Val args) (Val f)) state0 = RVal v s'
  end.
Proof.
  intros fn. destruct (trl_func fn) as [f|] eqn:E; [|exact I].
  intros n args v s' Hnd Hne Hlen Hgo. exact (lfunc_correct n fn f args v s' E Hnd Hne Hlen Hgo).
Qed.
Print Assumptions C02_loops_rejected_or_faithful.

(* ... at every position: any statement list under any usage, any continuation *)
Theorem C02_loops_rejected_or_faithful_everywhere : forall n, Q_lgo n /\ Q_lloop n.
Proof. exact trlk_correct. Qed.
Print Assumptions C02_loops_rejected_or_faithful_everywhere.

(* the guards of the loop fragment *)
Theorem C02_break_outside_loop_rejected : forall f G u k, u <> ULoop -> trl f G u (LCons LBreak LNil) k = None.
Proof. exact rejects_break_outside_loop. Qed.
Print Assumptions C02_break_outside_loop_rejected.

Theorem C02_continue_outside_loop_rejected : forall f G u k, u <> ULoop -> trl f G u (LCons LContinue LNil) k = None.
Proof. exact rejects_continue_outside_loop. Qed.
Print Assumptions C02_continue_outside_loop_rejected.

Theorem C02_code_after_break_rejected : forall f G u st rest k, trl f G u (LCons LBreak (LCons st rest)) k = None.
Proof. exact rejects_code_after_break. Qed.
Print Assumptions C02_code_after_break_rejected.

Theorem C02_code_after_continue_rejected : forall f G u st rest k, trl f G u (LCons LContinue (LCons st rest)) k = None.
Proof. exact rejects_code_after_continue. Qed.
Print Assumptions C02_code_after_continue_rejected.

Theorem C02_return_inside_loop_rejected : forall f G e k, trl f G ULoop (LCons (LReturn e) LNil) k = None.
Proof. exact rejects_return_in_loop_body. Qed.
Print Assumptions C02_return_inside_loop_rejected.

Theorem C02_loop_post_declaring_rejected : forall f G u init cond x e body rest k,
  trl f G u (LCons (LFor init cond (Some (SDefine x e)) body) rest) k = None.
Proof. exact rejects_declaring_post. Qed.
Print Assumptions C02_loop_post_declaring_rejected.

(* Packages with calls (Tr/MiniGoC.v): every package is refused by the model
   or translated faithfully - every function of it, for every argument vector
   on which Go returns, through any depth of calls and recursion. *)
From GV Require Import Tr.MiniGoC Tr.MiniGoCProofs.

Theorem C02_calls_rejected_or_faithful : forall P,
  trc_prog P = None \/
  exists vs, trc_prog P = Some vs /\
    Forall2 (fun fn F => forall n args v s,
               length args = length (cf_params fn) ->
               cgo_body n P (rev (combine (cf_params fn) args)) (cf_body fn) = Some v ->
               exists m, eval m (call_expr F args) s = RVal v s) P vs.
Proof. exact prog_rejected_or_faithful. Qed.
Print Assumptions C02_calls_rejected_or_faithful.

(* a parameter with the name of its function is refused, whatever the body and
   the other parameters (GooseLang's beta rule substitutes the recursion binder
   first: the name would denote the function; goose reports it as unsupported
   since the fix: commit, and the negative packages of profile minigoc check
   that the real goose and the model both refuse) *)
Theorem C02_parameter_named_like_its_function_rejected : forall T name ps1 ps2 body,
  trc_func T {| cf_name := name; cf_params := ps1 ++ name :: ps2; cf_body := body |} = None.
Proof. exact rejects_param_named_like_function. Qed.
Print Assumptions C02_parameter_named_like_its_function_rejected.

Theorem C02_call_of_a_function_not_yet_emitted_rejected : forall T self G f args,
  String.eqb f self = false -> flookup f T = None -> trc_expr T self G (CCall f args) = None.
Proof. exact rejects_call_of_unknown_function. Qed.
Print Assumptions C02_call_of_a_function_not_yet_emitted_rejected.

(* ... and with mutable variables (Tr/MiniGoS.v): refused, or faithful in value
   and store *)
From GV Require Import Tr.MiniGo Tr.MiniGoS Tr.MiniGoSProofs.

Theorem C02_calls_and_variables_rejected_or_faithful : forall P,
  trs_prog P = None \/
  exists vs, trs_prog P = Some vs /\
    Forall2 (fun fn F => forall n args v s s',
               length args = length (sf_params fn) ->
               sgo_body n P (rev (combine (map fst (sf_params fn)) (map Imm args))) s (sf_body fn) = Some (v, s') ->
               exists m, eval m (call_expr F args) s = RVal v s') P vs.
Proof. exact sprog_rejected_or_faithful. Qed.
Print Assumptions C02_calls_and_variables_rejected_or_faithful.

Theorem C02_assignment_to_a_let_bound_variable_rejected_with_calls : forall T self G x t e k,
  tlookup x G = Some (false, t) -> trs_body T self G (SAsg x e k) = None.
Proof. exact srejects_assign_to_letbound. Qed.

Theorem C02_unsupported_op_assignment_rejected_with_calls : forall T self G x e k op,
  assign_op op = false -> trs_body T self G (SOpAsg op x e k) = None.
Proof. exact srejects_unsupported_opassign. Qed.

Theorem C02_incdec_of_a_let_bound_variable_rejected_with_calls : forall T self G x t inc k,
  tlookup x G = Some (false, t) -> trs_body T self G (SIncD inc x k) = None.
Proof. exact srejects_incdec_of_letbound. Qed.
