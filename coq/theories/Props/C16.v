(* C16 — Remaining machine primitives meet their modelled contracts.
   Property theorems only. *)
From Coq Require Import List ZArith Lia.
From GV Require Import Prims.Prims Prims.PrimsProofs Prims.WaitTimeout.
Import ListNotations.
Open Scope Z_scope.

(* UInt64ToString is the canonical decimal rendering: digits only, no leading
   zero, and it denotes the number — hence injective — for every uint64 *)
Theorem C16_tostring_digits_only : forall n, 0 <= n < 2 ^ 64 -> forallb is_digit (to_string n) = true.
Proof. exact to_string_digits_only. Qed.
Theorem C16_tostring_no_leading_zero : forall n, 0 <= n < 2 ^ 64 ->
  exists d t, to_string n = d :: t /\ (d = 0 -> n = 0 /\ t = []).
Proof. exact to_string_no_leading_zero. Qed.
Theorem C16_tostring_value : forall n, 0 <= n < 2 ^ 64 -> of_string (to_string n) = n.
Proof. exact to_string_roundtrip. Qed.
Theorem C16_tostring_injective : forall a b, 0 <= a < 2 ^ 64 -> 0 <= b < 2 ^ 64 -> to_string a = to_string b -> a = b.
Proof. exact to_string_injective. Qed.
Print Assumptions C16_tostring_digits_only.
Print Assumptions C16_tostring_no_leading_zero.
Print Assumptions C16_tostring_value.
Print Assumptions C16_tostring_injective.

(* MapClear: the builtin clear leaves ANY map empty.  (The original range/delete
   loop did so only for keys that are equal to themselves — theorem and
   counter-example kept below; repaired by a fix: commit in /repo.) *)
Theorem C16_mapclear_empty : forall (K V : Type) (m : list (K * V)), clear_builtin m = [].
Proof. exact @clear_builtin_empty. Qed.
Theorem C16_mapclear_loop_partial : forall (K V : Type) (keq : K -> K -> bool) (m : list (K * V)) order,
  (forall e, In e m -> keq (fst e) (fst e) = true) -> (forall e, In e m -> In (fst e) order) ->
  clear_loop keq order m = [].
Proof. exact @clear_loop_empties. Qed.
Theorem C16_mapclear_loop_refuted : forall (K V : Type) (keq : K -> K -> bool) (m : list (K * V)) e,
  In e m -> (forall k, keq (fst e) k = false) -> forall order, In e (clear_loop keq order m).
Proof. exact @clear_loop_keeps_irreflexive. Qed.
Print Assumptions C16_mapclear_empty.
Print Assumptions C16_mapclear_loop_partial.
Print Assumptions C16_mapclear_loop_refuted.

(* Assume and Assert panic exactly when their argument is false *)
Theorem C16_assume : forall c, assume c = Panics <-> c = false.
Proof. exact assume_panics_iff. Qed.
Theorem C16_assert : forall c, assert c = Panics <-> c = false.
Proof. exact assert_panics_iff. Qed.
Print Assumptions C16_assume.
Print Assumptions C16_assert.

(* WaitTimeout (transition system over the caller, the helper goroutines of
   all calls so far, the mutex, the notify list, the timer and an arbitrary
   environment): it returns with the caller's lock held, the lock stays the
   caller's until the caller itself unlocks (stale helpers of timed-out calls
   never take it away), no run performs an unlock of an unlocked mutex, and
   there is no deadlock inside the call. *)
Theorem C16_wait_returns_locked : forall c c' k, wreach c -> cal c = CLock k -> wstep c c' -> cal c' = COut ->
  mu c' = Some OCaller.
Proof. exact wait_returns_locked. Qed.
Theorem C16_wait_lock_stays_with_caller : forall c c', wreach c -> cal c = COut -> mu c = Some OCaller -> wstep c c' ->
  mu c' <> mu c -> c' = set_mu c None.
Proof. exact caller_keeps_lock. Qed.
Theorem C16_wait_never_crashes : forall c, wreach c -> crashed c = false.
Proof. exact wait_never_crashes. Qed.
Theorem C16_wait_select_can_proceed : forall c k, wreach c -> cal c = CSel k ->
  exists c1, wstep c c1 /\ cal c1 = CSel k /\ fired c1 = true /\ exists c2, wstep c1 c2 /\ cal c2 = CLock k.
Proof. exact wait_select_can_proceed. Qed.
Theorem C16_wait_lock_can_be_released : forall c k, wreach c -> cal c = CLock k ->
  (exists c', wstep c c' /\ cal c' = COut /\ mu c' = Some OCaller)
  \/ (exists c', wstep c c' /\ mu c' = None /\ cal c' = CLock k).
Proof. exact wait_lock_can_be_released. Qed.
Print Assumptions C16_wait_returns_locked.
Print Assumptions C16_wait_lock_stays_with_caller.
Print Assumptions C16_wait_never_crashes.
Print Assumptions C16_wait_select_can_proceed.
Print Assumptions C16_wait_lock_can_be_released.

(* Non-vacuity *)
Example C16_example :
  to_string 18446744073709551615 = [1;8;4;4;6;7;4;4;0;7;3;7;0;9;5;5;1;6;1;5] /\ to_string 0 = [0] /\
  (exists c, wreach c /\ nh c = 2%nat /\ cal c = COut /\ mu c = Some OCaller /\ hs c 0%nat = HEnd).
Proof. split; [vm_compute; reflexivity|]. split; [vm_compute; reflexivity|]. exact wait_example_run. Qed.
