(* C18 — test_gen emits exactly one Go and one Coq test per test function.
   Property theorems only. *)
From Coq Require Import String.
From Coq Require Import List Bool.
From GV Require Import TestGen.TestGen TestGen.TestGenProofs.
Import ListNotations.
Open Scope string_scope.

(* the header line of a top-level function yields exactly the test its name
   denotes ([failing_]test<identifier characters>), whatever follows the "(" *)
Theorem C18_line_spec : forall name rest, all_namechars name = true ->
  scan_line ("func " ++ name ++ "(" ++ rest) = test_of_name name.
Proof. exact scan_func_line. Qed.
Print Assumptions C18_line_spec.

(* methods and all other lines yield nothing *)
Theorem C18_method_line : forall r, scan_line ("func (" ++ r) = None.
Proof. exact scan_method_line. Qed.
Theorem C18_other_line : forall l, quiet_line l = true -> scan_line l = None.
Proof. exact scan_quiet_line. Qed.
Print Assumptions C18_method_line.
Print Assumptions C18_other_line.

(* for every file built from any list of declarations (functions with any
   names — test, failing_test, disabled_test, helpers —, methods, anything
   else whose lines do not start with "func" + space): exactly one test per test
   function, in source order, failing ones marked, nothing else *)
Theorem C18_one_test_per_function_partial : forall fname ds, forallb decl_ok ds = true -> idents_ok ds = true ->
  tests_of_file (fname, flat_map render_decl ds) = tests_of_decls ds.
Proof. exact one_test_per_function. Qed.
Print Assumptions C18_one_test_per_function_partial.

(* files: order of files preserved; *_test.go, *.gold.v and backup files skipped *)
Theorem C18_files_in_order : forall d1 d2, tests_of_dir (d1 ++ d2)%list = (tests_of_dir d1 ++ tests_of_dir d2)%list.
Proof. exact tests_of_dir_app. Qed.
Theorem C18_skipped_files : forall name ls d, skip_file name = true -> tests_of_dir ((name, ls) :: d) = tests_of_dir d.
Proof. exact skipped_file_ignored. Qed.
Theorem C18_kept_files : forall name ls d, skip_file name = false ->
  tests_of_dir ((name, ls) :: d) = (tests_of_file (name, ls) ++ tests_of_dir d)%list.
Proof. exact kept_file_scanned. Qed.
Print Assumptions C18_files_in_order.
Print Assumptions C18_skipped_files.
Print Assumptions C18_kept_files.

(* both generators emit the same tests, in the same order *)
Theorem C18_generators_agree : forall d, coq_tests d = tests_of_dir d.
Proof. exact generators_agree. Qed.
Print Assumptions C18_generators_agree.

(* The unrestricted statement is false of the line-based generator: a line of a
   raw string literal at column 0 that looks like a function header is taken
   for a test (recorded as a known finding). *)
Theorem C18_full_refuted : exists lines, tests_of_file ("a.go", lines) <> [] /\
  (* the file declares no function at all: one constant whose raw string spans three lines *)
  lines = ["package semantics"; ""; "const raw = `"; "func testFake() bool {"; "`"].
Proof. eexists. split; [|reflexivity]. vm_compute. discriminate. Qed.
Print Assumptions C18_full_refuted.

(* Non-vacuity *)
Example C18_example :
  let ds := [DFunc "testAdd" ") bool {" ["	return true"; "}"]; DOther [""];
             DFunc "failing_test_x9" ") bool {" ["	return true"; "}"];
             DMethod "t T) testM() bool {" ["	return true"; "}"];
             DFunc "disabled_testZ" ") bool {" ["}"]; DFunc "helper" "a uint64," ["	b uint64) uint64 {"; "}"]] in
  forallb decl_ok ds = true /\ idents_ok ds = true /\
  tests_of_decls ds = [(false, "Add"); (true, "_x9")] /\
  tests_of_dir [("a.go", flat_map render_decl ds); ("b_test.go", ["func testSkipped() bool {"]); ("c.go~", ["func testOld() {"])]
  = [(false, "Add"); (true, "_x9")].
Proof. vm_compute. repeat split. Qed.

(* the generated Go file compiles as far as its imports go: a package without
   any test function gets the fixed text below, which does not mention the
   disk package (and does not import it); with at least one test the disk
   import is there and every test uses it *)
Theorem C18_go_file_without_tests : forall d, tests_of_dir d = [] ->
  gen_go d = (go_header_no_tests ++ go_footer)%string /\ contains "disk" (gen_go d) = false.
Proof. exact go_file_without_tests. Qed.
Print Assumptions C18_go_file_without_tests.

Theorem C18_go_file_with_tests : forall d, tests_of_dir d <> [] ->
  gen_go d = (go_header ++ concat_str (map go_test (tests_of_dir d)) ++ go_footer)%string /\
  forall t, In t (tests_of_dir d) -> contains "disk.Init" (go_test t) = true.
Proof. exact go_file_with_tests. Qed.
Print Assumptions C18_go_file_with_tests.
