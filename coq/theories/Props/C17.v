(* C17 — goose command: exit status, file placement and partial output.
   Property theorems only.  Package loading (golang.org/x/tools/go/packages) and
   the translation of each package enter as inputs (the per-package results). *)
From Coq Require Import String.
From Coq Require Import List Bool.
From GV Require Import Tr.Header Tr.Cli Tr.CliProofs.
Import ListNotations.
Open Scope string_scope.

(* exit status 0 exactly when every matched package translated without error *)
Theorem C17_exit : forall ig out ex rs,
  fst (cli false ig out ex rs) = 0 <-> forall pr, In pr rs -> is_ok (snd pr) = true.
Proof. exact cli_exit. Qed.
Print Assumptions C17_exit.

(* a pattern error (syntax error, or patterns matching nothing) exits 1 and writes nothing *)
Theorem C17_pattern_error : forall ig out ex rs, cli true ig out ex rs = (1, []).
Proof. exact cli_pattern_error. Qed.
Print Assumptions C17_pattern_error.

(* placement and partial output: exactly the writes characterised here — one
   file per translated package at the Coq path derived from its import path
   with exactly its contents; for a package with an error nothing unless
   -ignore-errors, and then exactly the declarations that translated; nothing
   when the file already has those contents *)
Theorem C17_writes : forall ig out ex rs w,
  In w (snd (cli false ig out ex rs)) <->
  exists pkg r, In (pkg, r) rs /\ (is_ok r = true \/ ig = true) /\
                w = {| w_path := out_file out pkg; w_data := contents r |} /\ ex (out_file out pkg) <> Some (contents r).
Proof. exact cli_writes. Qed.
Print Assumptions C17_writes.

Theorem C17_no_partial_output_without_flag : forall out ex rs w,
  In w (snd (cli false false out ex rs)) ->
  exists pkg c, In (pkg, ROk c) rs /\ w = {| w_path := out_file out pkg; w_data := c |}.
Proof. exact cli_errors_not_written. Qed.
Print Assumptions C17_no_partial_output_without_flag.

Theorem C17_unchanged_not_rewritten : forall ig out ex rs pkg r,
  In (pkg, r) rs -> ex (out_file out pkg) = Some (contents r) ->
  (forall pkg' r', In (pkg', r') rs -> out_file out pkg' = out_file out pkg -> contents r' = contents r) ->
  forall w, In w (snd (cli false ig out ex rs)) -> w_path w <> out_file out pkg.
Proof. exact cli_unchanged_not_rewritten. Qed.
Print Assumptions C17_unchanged_not_rewritten.

(* distinct packages are written to distinct files, for paths without '.'/'-' (which are mapped to '_') *)
Theorem C17_paths_injective_partial : forall out p q, plain p = true -> plain q = true ->
  out_file out p = out_file out q -> p = q.
Proof. exact cli_paths_injective_partial. Qed.
Print Assumptions C17_paths_injective_partial.
(* the mapping is not injective in general *)
Example C17_paths_clash_refuted : out_file "o" "m/a-b" = out_file "o" "m/a.b" /\ "m/a-b" <> "m/a.b".
Proof. split; [reflexivity|discriminate]. Qed.

(* Non-vacuity *)
Example C17_example :
  let ex := fun p => if String.eqb p "o/m/good.v" then Some "G" else None in
  cli false false "o" ex [("m/good", ROk "G"); ("m/bad", RErr "partial"); ("m/new", ROk "N")]
    = (1, [{| w_path := "o/m/new.v"; w_data := "N" |}]) /\
  cli false true "o" ex [("m/good", ROk "G"); ("m/bad", RErr "partial")]
    = (1, [{| w_path := "o/m/bad.v"; w_data := "partial" |}]).
Proof. vm_compute. split; reflexivity. Qed.
