(* C10 — Concurrent disk operations are linearizable per block.
   Property theorems only. *)
From Coq Require Import List ZArith Lia.
From GV Require Import Disk.Disk Disk.DiskProofs Conc.Lin Conc.SingleLock Conc.MemDiskConc
                       Conc.LinCheck Conc.DiskLin Conc.Unlocked.
Import ListNotations.
Open Scope Z_scope.

(* The generic theorem: any object whose operations run their micro-steps
   between acquire and release of one mutex / RW-lock (readers pure), or take
   no lock and return a state-independent value, is linearizable w.r.t. its
   atomic sequential object: every thread count, client and interleaving. *)
Theorem C10_single_lock_linearizable :
  forall (St L Op Res : Type) (md : Op -> mode) (prog : Op -> list (@mstep St L)) (init : Op -> L)
         (result : Op -> L -> Res),
    (forall o, md o = MR -> Forall pure (prog o)) -> (forall o, md o = MFree -> prog o = []) ->
    forall s0 c, reachable md prog init result s0 c ->
                 linearizable (seq_atomic prog init result) s0 (history (tr c)).
Proof. exact @single_lock_linearizable. Qed.
Print Assumptions C10_single_lock_linearizable.

(* MemDisk: a block copy is one micro-step PER BYTE, so torn blocks are
   expressible; with the code's lock modes every reachable history is
   linearizable w.r.t. the register-array specification of C09: each read
   returns one whole block written by a single write, in an order respecting
   real time. *)
Theorem C10_memdisk_linearizable : forall bs n, 0 <= n -> forall c,
  reachable (md bs) (prog bs n) (init bs) (result bs n) (mem_init bs n) c ->
  (forall t o, In (HInv t o) (history (tr c)) -> op_ok bs o) ->
  linearizable (regs_step bs) (regs_init bs n) (history (tr c)).
Proof. exact memdisk_linearizable. Qed.
Print Assumptions C10_memdisk_linearizable.

(* the lock matters: without it a torn read is reachable, and that history is
   not linearizable *)
Theorem C10_unlocked_is_torn :
  torn_history = [HResp 0%nat RUnit; HResp 1%nat (RBlock [1; 0]); HInv 1%nat (ORead 0); HInv 0%nat (OWrite 0 [1; 1])]
  /\ ~ linearizable (regs_step 2) (regs_init 2 1) torn_history.
Proof. exact (conj unlocked_read_is_torn unlocked_not_linearizable). Qed.
Print Assumptions C10_unlocked_is_torn.

(* recorded histories are judged by a checker that is sound and complete *)
Theorem C10_checker_decides : forall bs n ts h, threads_in ts h ->
  (disk_lin_check bs n ts h = true <-> linearizable (regs_step bs) (regs_init bs n) (rev h)).
Proof. exact disk_lin_check_correct. Qed.
Print Assumptions C10_checker_decides.

(* File-backed disk, model level: operations on distinct addresses commute
   (neither the other's result nor the final file depends on their order) ... *)
Theorem C10_file_distinct_addresses_commute : forall bs d s o1 o2,
  Rfile bs d s -> addr_ok o1 -> addr_ok o2 ->
  outs (file_step bs) d [o1; o2] = outs (regs_step bs) s [o1; o2] /\
  outs (file_step bs) d [o2; o1] = outs (regs_step bs) s [o2; o1].
Proof.
  intros bs d s o1 o2 HR H1 H2. split;
    apply (sim_outs (file_step bs) (regs_step bs) (Rfile bs) addr_ok); auto;
    try (intros; now apply file_sim); repeat constructor; assumption.
Qed.
Print Assumptions C10_file_distinct_addresses_commute.

(* ... and a sequence of operations ordered in real time is observed in that
   order: it is exactly the sequential register semantics (C09_file_refines). *)
Theorem C10_file_realtime_order : forall bs n h, 0 <= n -> n * Z.of_nat bs < 2 ^ 64 -> Forall addr_ok h ->
  outs (file_step bs) (file_init bs n) h = outs (regs_step bs) (regs_init bs n) h.
Proof. exact file_refines. Qed.
Print Assumptions C10_file_realtime_order.

(* Non-vacuity: a reachable concurrent configuration of the locked system. *)
Example C10_example_reachable :
  exists c, reachable (md 2) (prog 2 1) (init 2) (result 2 1) (mem_init 2 1) c /\
            history (tr c) = [HInv 1%nat (ORead 0); HInv 0%nat (OWrite 0 [1; 1])].
Proof.
  eexists. split.
  - eapply r_step; [eapply r_step; [apply r_init|]|].
    + apply (s_invoke _ _ _ _ _ 0%nat (OWrite 0 [1; 1])). reflexivity.
    + apply (s_invoke _ _ _ _ _ 1%nat (ORead 0)). reflexivity.
  - reflexivity.
Qed.
