(* C13 — AtomicCreate is all-or-nothing, durable-before-visible, interference-free.
   Property theorems only.  DirFs.AtomicCreate is not modelled by hand: its
   behaviour is the interpretation [prog_of] of its regenerated statement
   skeleton in the POSIX model (Fs/Posix.v); Oblig/O13.v checks per run that the
   skeleton has the shape [atomic_create_shape]. *)
From Coq Require Import String.
From Coq Require Import List ZArith Lia.
From GV Require Import Base.Skel Fs.Fs Fs.FsProofs Fs.Posix Fs.PosixProofs Fs.PosixConc.
Import ListNotations.
Local Open Scope nat_scope.

(* For ANY body of that shape, any kernel state (any old contents of the
   destination, any leftovers; the unique temp name unused or truncated), any
   chunking of the data by the write loop and any k: after the first k system
   calls — a crash (kill) or a failing system call at any step, or simply an
   instant during the call — the destination is as it was, or holds exactly
   the data; and whenever the new contents are visible they are already
   durable (fsync completed before the rename). *)
Theorem C13_all_or_nothing_and_durable_before_visible : forall ss chunks tmp dst s k,
  atomic_create_shape ss = true -> tmp <> dst -> pwf s -> safe_tmp s tmp dst true ->
  let s' := fst (prun tmp dst (firstn k (prog_of ss chunks)) s ploc0) in
  same_view dst s s' \/
  (content s' dst = Some (concat chunks) /\ durable_content s' dst = Some (Some (concat chunks))).
Proof. exact shape_atomic_and_durable. Qed.
Print Assumptions C13_all_or_nothing_and_durable_before_visible.

(* once the call returns the file holds exactly the data, whatever earlier
   interrupted calls left behind *)
Theorem C13_complete : forall ss chunks tmp dst s,
  atomic_create_shape ss = true -> tmp <> dst -> pwf s -> safe_tmp s tmp dst true ->
  content (fst (prun tmp dst (prog_of ss chunks) s ploc0)) dst = Some (concat chunks).
Proof. exact shape_complete. Qed.
Print Assumptions C13_complete.

(* concurrent calls (unique temp names): under EVERY interleaving of their
   system calls, different names do not disturb each other and the same name
   ends with the complete data of one of the calls *)
Theorem C13_concurrent_calls : forall ca cb,
  c_tmp ca <> c_tmp cb -> c_tmp ca <> c_dst ca -> c_tmp ca <> c_dst cb ->
  c_tmp cb <> c_dst ca -> c_tmp cb <> c_dst cb ->
  forall s sched, pwf s -> alookup Nat.eqb (c_tmp ca) (pnames s) = None -> alookup Nat.eqb (c_tmp cb) (pnames s) = None ->
  let g := run2 ca cb sched (start2 ca cb s) in
  g_pa g = [] -> g_pb g = [] ->
  (content (g_s g) (c_dst ca) = Some (c_data ca) \/
   (c_dst ca = c_dst cb /\ content (g_s g) (c_dst ca) = Some (c_data cb))) /\
  (content (g_s g) (c_dst cb) = Some (c_data cb) \/
   (c_dst cb = c_dst ca /\ content (g_s g) (c_dst cb) = Some (c_data ca))).
Proof. exact two_calls_any_interleaving. Qed.
Print Assumptions C13_concurrent_calls.

Theorem C13_different_names_do_not_interfere : forall ca cb,
  c_tmp ca <> c_tmp cb -> c_tmp ca <> c_dst ca -> c_tmp ca <> c_dst cb ->
  c_tmp cb <> c_dst ca -> c_tmp cb <> c_dst cb ->
  forall s sched, pwf s -> alookup Nat.eqb (c_tmp ca) (pnames s) = None -> alookup Nat.eqb (c_tmp cb) (pnames s) = None ->
  c_dst ca <> c_dst cb ->
  let g := run2 ca cb sched (start2 ca cb s) in
  g_pa g = [] -> g_pb g = [] ->
  content (g_s g) (c_dst ca) = Some (c_data ca) /\ content (g_s g) (c_dst cb) = Some (c_data cb).
Proof. exact two_calls_different_names. Qed.
Print Assumptions C13_different_names_do_not_interfere.

(* MemFs.AtomicCreate is one atomic step under the mutex (C14) that installs a
   fresh copy under the name and touches no other name *)
Theorem C13_memfs_atomic_create : forall s d n data, mem_nat d (dirs s) = true ->
  let s' := fst (ref_step s (FAtomicCreate d n data)) in
  exists i, alookup path_eqb (d, n) (ents s') = Some i /\ data_of i s' = data /\
            forall p, p <> (d, n) -> alookup path_eqb p (ents s') = alookup path_eqb p (ents s).
Proof. exact ref_atomic_create_spec. Qed.
Print Assumptions C13_memfs_atomic_create.

(* The shape matters (non-vacuity): the same model exhibits the failures when
   the shape is violated. *)
(* (a) temp not truncated + a longer leftover: the result is a mixture *)
Example C13_no_trunc_is_mixture :
  let s := {| pnames := [(7, 1)]; pvol := [(1, [9;9;9;9;9]%Z)]; pdur := []; pnext := 2 |} in
  content (fst (prun 7 3 (ac_prog false [[1;2]%Z]) s ploc0)) 3 = Some [1;2;9;9;9]%Z.
Proof. vm_compute. reflexivity. Qed.
(* (b) rename before fsync: a state exists where the name is visible but nothing is durable *)
Example C13_rename_before_fsync_not_durable :
  let s := {| pnames := []; pvol := []; pdur := []; pnext := 0 |} in
  let s' := fst (prun 7 3 [POpen true; PWrite [1;2]%Z; PRename] s ploc0) in
  content s' 3 = Some [1;2]%Z /\ durable_content s' 3 = Some None.
Proof. vm_compute. split; reflexivity. Qed.
(* (c) a shared temp name under concurrency: the surviving file mixes the two calls *)
Example C13_shared_tmp_mixes :
  let ca := {| c_tmp := 7; c_dst := 3; c_chunks := [[1;1;1]%Z] |} in
  let cb := {| c_tmp := 7; c_dst := 3; c_chunks := [[2]%Z] |} in
  let s := {| pnames := []; pvol := []; pdur := []; pnext := 0 |} in
  let g := run2 ca cb [true; false; true; false; false; false] (start2 ca cb s) in
  content (g_s g) 3 = Some [2;1;1]%Z.
Proof. vm_compute. reflexivity. Qed.

(* Non-vacuity of the main theorem: a concrete state with an old destination and a leftover *)
Example C13_example :
  let s := {| pnames := [(3, 0); (7, 1)]; pvol := [(0, [5;5]%Z); (1, [9;9;9;9;9]%Z)]; pdur := [(0, [5;5]%Z)]; pnext := 2 |} in
  pwf s /\ safe_tmp s 7 3 true /\
  map (fun k => content (fst (prun 7 3 (firstn k (ac_prog true [[1]%Z;[2]%Z])) s ploc0)) 3) [0;1;2;3;4;5]
  = [Some [5;5]; Some [5;5]; Some [5;5]; Some [5;5]; Some [5;5]; Some [1;2]]%Z.
Proof.
  cbv zeta. split; [|split; [|vm_compute; reflexivity]].
  - intros n i H. cbn in *. destruct (Nat.eqb n 3); [injection H as <-; lia|].
    destruct (Nat.eqb n 7); [injection H as <-; lia|discriminate].
  - cbn. split; [reflexivity|discriminate].
Qed.
