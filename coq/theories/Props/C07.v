(* C07 — goose never crashes: output or structured, located errors.
   Property theorems only.  Tr/Decls.v models the per-declaration recovery of
   interface.go declsOrError / Decls: a declaration yields definitions, a
   structured error (typed panic, recovered), or a foreign panic (re-raised). *)
From Coq Require Import List.
From GV Require Import Tr.Decls Tr.DeclsProofs.
Import ListNotations.

(* if no declaration raises a foreign panic, the package ends with a complete
   result: the definitions of every declaration that translated, one error per
   declaration that did not, nothing lost *)
Theorem C07_output_or_errors : forall (X E : Type) (rs : list (tres X E)),
  (forall r, In r rs -> is_crash r = false) ->
  exists groups errs, translate_decls rs = Some (groups, errs) /\
    length groups = length rs /\
    (forall i r, nth_error rs i = Some r -> nth_error groups i = Some (defs_of r)) /\
    length errs = length (filter (fun r => match r with TErr _ => true | _ => false end) rs).
Proof. exact no_crash_gives_result. Qed.
Print Assumptions C07_output_or_errors.

(* an error in one declaration does not stop the other declarations *)
Theorem C07_declarations_independent : forall (X E : Type) (rs1 rs2 : list (tres X E)) g1 e1 g2 e2 i,
  translate_decls rs1 = Some (g1, e1) -> translate_decls rs2 = Some (g2, e2) ->
  nth_error rs1 i = nth_error rs2 i -> nth_error g1 i = nth_error g2 i.
Proof. exact declarations_independent. Qed.
Print Assumptions C07_declarations_independent.

Theorem C07_success_iff_all_translated : forall (X E : Type) (rs : list (tres X E)) g e,
  translate_decls rs = Some (g, e) -> (e = [] <-> forall r, In r rs -> exists d, r = TOk d).
Proof. exact no_errors_iff_all_ok. Qed.
Print Assumptions C07_success_iff_all_translated.
