(* C09 — Disks are arrays of independent block-sized registers; Mem ≡ File.
   All statements are for every block size [bs] (the code's value 4096 is a
   per-run obligation in Oblig/O09.v), every disk size n >= 0 and every finite
   history.  Property theorems only; proofs are [exact lemma]. *)
From Coq Require Import List ZArith Lia.
From GV Require Import Disk.Disk Disk.DiskProofs.
Import ListNotations.
Open Scope Z_scope.

(* --- the register-array specification, stated over histories --- *)

(* every read returns the most recent accepted write to that address (zeros if
   there is none); reads out of range are refused *)
Theorem C09_read_returns_last_write : forall bs n h a,
  outs (regs_step bs) (regs_init bs n) (h ++ [ORead a]) =
  outs (regs_step bs) (regs_init bs n) h ++
  [if in_range n a then RBlock (last_write bs n h a (zeros bs)) else RRefused].
Proof. exact regs_read_spec. Qed.
Print Assumptions C09_read_returns_last_write.

Theorem C09_readto_returns_last_write : forall bs n h a buf, length buf = bs ->
  outs (regs_step bs) (regs_init bs n) (h ++ [OReadTo a buf]) =
  outs (regs_step bs) (regs_init bs n) h ++
  [if in_range n a then RBlock (last_write bs n h a (zeros bs)) else RRefused].
Proof. exact regs_readto_spec. Qed.
Print Assumptions C09_readto_returns_last_write.

(* a write affects no other address *)
Theorem C09_write_affects_no_other_address : forall bs n a a' v h cur, a' <> a ->
  last_write bs n (OWrite a' v :: h) a cur = last_write bs n h a cur.
Proof. exact last_write_other. Qed.
Print Assumptions C09_write_affects_no_other_address.

(* Size never changes *)
Theorem C09_size_constant : forall bs n h, size (fst (run (regs_step bs) (regs_init bs n) h)) = n.
Proof. exact regs_size_const. Qed.
Print Assumptions C09_size_constant.

(* writes are refused exactly for out-of-range addresses or wrong-sized
   buffers; a refused call changes nothing *)
Theorem C09_write_refused_iff : forall bs s a v,
  snd (regs_step bs s (OWrite a v)) = RRefused <-> (length v <> bs \/ in_range (size s) a = false).
Proof. exact regs_write_refused_iff. Qed.
Theorem C09_refused_changes_nothing : forall bs s o,
  snd (regs_step bs s o) = RRefused -> fst (regs_step bs s o) = s.
Proof. exact regs_refused_unchanged. Qed.
Print Assumptions C09_write_refused_iff.
Print Assumptions C09_refused_changes_nothing.

(* the contents of a buffer handed to ReadTo do not matter (only its length):
   together with the value semantics of the models (blocks are values, never
   shared with the client) this is the model-level form of "the disk neither
   retains nor exposes caller-owned memory"; the aliasing itself can only be
   observed on the Go side and is exercised by the correspondence run. *)
Theorem C09_readto_buffer_contents_irrelevant : forall bs s a buf buf', length buf = length buf' ->
  regs_step bs s (OReadTo a buf) = regs_step bs s (OReadTo a buf').
Proof. exact regs_readto_buffer_irrelevant. Qed.
Print Assumptions C09_readto_buffer_contents_irrelevant.

(* --- both implementations refine the specification, hence each other --- *)

Theorem C09_mem_refines : forall bs n h, 0 <= n -> Forall (op_ok bs) h ->
  outs (mem_step bs) (mem_init bs n) h = outs (regs_step bs) (regs_init bs n) h.
Proof. exact mem_refines. Qed.
Print Assumptions C09_mem_refines.

(* the file-backed disk: offsets a*bs computed in uint64 (wrap written into the
   model), for every size whose byte length fits in 64 bits *)
Theorem C09_file_refines : forall bs n h, 0 <= n -> n * Z.of_nat bs < 2 ^ 64 -> Forall addr_ok h ->
  outs (file_step bs) (file_init bs n) h = outs (regs_step bs) (regs_init bs n) h.
Proof. exact file_refines. Qed.
Print Assumptions C09_file_refines.

Corollary C09_mem_file_equal : forall bs n h, 0 <= n -> n * Z.of_nat bs < 2 ^ 64 -> Forall (op_ok bs) h ->
  outs (mem_step bs) (mem_init bs n) h = outs (file_step bs) (file_init bs n) h.
Proof. exact mem_file_equal. Qed.
Print Assumptions C09_mem_file_equal.

(* Non-vacuity: a history meeting the hypotheses, with its computed outputs
   (bs = 2 keeps the term small; the theorems are generic in bs). *)
Example C09_example :
  let h := [OWrite 1 [7;8]; ORead 1; ORead 0; OWrite 2 [1;1]; OWrite 0 [1]; OReadTo 1 [5;5]; OSize; OWrite 1 [9;9]; ORead 1] in
  Forall (op_ok 2) h /\
  outs (file_step 2) (file_init 2 2) h =
    [RUnit; RBlock [7;8]; RBlock [0;0]; RRefused; RRefused; RBlock [7;8]; RSize 2; RUnit; RBlock [9;9]]
  /\ outs (mem_step 2) (mem_init 2 2) h = outs (file_step 2) (file_init 2 2) h.
Proof.
  cbv zeta. split; [|split; vm_compute; reflexivity].
  repeat constructor; cbn; lia.
Qed.
