(* C03 — concurrent programs: Go outcomes are GooseLang outcomes, over all schedules.
   Property theorems only.  Lang/GlConc.v is the reference semantics with
   threads: a small-step machine over the syntax, library functions and state
   of the sequential semantics, and an explorer of all interleavings at the
   steps that touch the state (loads, stores, allocation, locks, wait groups,
   forks). *)
From Coq Require Import String List ZArith.
From GV Require Import Lang.GlSyntax Lang.GlSem Lang.GlConc Lang.GlConcProofs.
Import ListNotations.

(* every result the explorer reports for a program is produced by an explicit
   schedule of the machine: the set of GooseLang outcomes the emitted program is
   compared against contains only real behaviours, for every program, pool and
   state *)
Theorem C03_explored_results_are_behaviours : forall fuel lfuel stale pool s v,
  In (ODone v) (explore fuel lfuel stale pool s) ->
  exists acts pool' s', run_acts lfuel acts pool s = Some (pool', s') /\ main_done lfuel pool' s' v.
Proof. exact explore_done_sound. Qed.
Print Assumptions C03_explored_results_are_behaviours.

(* the lock of the reference semantics: acquiring a free lock takes it,
   acquiring a held lock cannot proceed, releasing gives it back, releasing a
   free lock is undefined behaviour *)
Theorem C03_lock_semantics : forall b s,
  (read_lock b s = Some false -> exists s', exec_prim PLockAcquire [LitV (LitLoc b 0)] s = RVal (LitV LitUnit) s' /\ read_lock b s' = Some true) /\
  (read_lock b s = Some true -> exec_prim PLockAcquire [LitV (LitLoc b 0)] s = RFuel) /\
  (read_lock b s = Some true -> exists s', exec_prim PLockRelease [LitV (LitLoc b 0)] s = RVal (LitV LitUnit) s' /\ read_lock b s' = Some false) /\
  (read_lock b s = Some false -> exists w, exec_prim PLockRelease [LitV (LitLoc b 0)] s = RStuck w).
Proof. exact lock_semantics. Qed.
Print Assumptions C03_lock_semantics.
