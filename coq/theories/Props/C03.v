(* C03 — concurrent programs: Go outcomes are GooseLang outcomes, over all schedules.
   Property theorems only.  Lang/GlConc.v is the reference semantics with
   threads: a small-step machine over the syntax, library functions and state
   of the sequential semantics, and an explorer of all interleavings at the
   steps that touch the state (loads, stores, allocation, locks, wait groups,
   forks). *)
From Coq Require Import String List ZArith.
From GV Require Import Lang.GlSyntax Lang.GlSem Lang.GlConc Lang.GlConcProofs.
Import ListNotations.

(* every result the explorer reports for a program is produced by an explicit
   schedule of the machine: the set of GooseLang outcomes the emitted program is
   compared against contains only real behaviours, for every program, pool and
   state *)
Theorem C03_explored_results_are_behaviours : forall fuel lfuel stale pool s v,
  In (ODone v) (explore fuel lfuel stale pool s) ->
  exists acts pool' s', run_acts lfuel acts pool s = Some (pool', s') /\ main_done lfuel pool' s' v.
Proof. exact explore_done_sound. Qed.
Print Assumptions C03_explored_results_are_behaviours.

(* the lock of the reference semantics: acquiring a free lock takes it,
   acquiring a held lock cannot proceed, releasing gives it back, releasing a
   free lock is undefined behaviour *)
Theorem C03_lock_semantics : forall b s,
  (read_lock b s = Some false -> exists s', exec_prim PLockAcquire [LitV (LitLoc b 0)] s = RVal (LitV LitUnit) s' /\ read_lock b s' = Some true) /\
  (read_lock b s = Some true -> exec_prim PLockAcquire [LitV (LitLoc b 0)] s = RFuel) /\
  (read_lock b s = Some true -> exists s', exec_prim PLockRelease [LitV (LitLoc b 0)] s = RVal (LitV LitUnit) s' /\ read_lock b s' = Some false) /\
  (read_lock b s = Some false -> exists w, exec_prim PLockRelease [LitV (LitLoc b 0)] s = RStuck w).
Proof. exact lock_semantics. Qed.
Print Assumptions C03_lock_semantics.

(* the machine is conservative over the sequential reference semantics: whatever
   a run of one thread computes — its forked children run to completion at the
   fork point, the schedule the sequential semantics itself uses — the
   sequential semantics (the one C01/C02 are stated in, validated against the
   upstream semantics suite) computes too: same value, same final state *)
From GV Require Import Lang.GlMachineSeq.

Theorem C03_machine_runs_are_sequential_results : forall k e s v s',
  mrun k e s = Some (v, s') -> exists n, eval n e s = RVal v s'.
Proof. exact mrun_sound. Qed.
Print Assumptions C03_machine_runs_are_sequential_results.

(* one step of the machine never changes what the expression evaluates to *)
Theorem C03_machine_step_preserves_meaning : forall e s,
  match step1 e s with
  | SPure e' => forall w s1, (exists n, eval n e' s = RVal w s1) -> exists n, eval n e s = RVal w s1
  | SMem e' s' _ => forall w s1, (exists n, eval n e' s' = RVal w s1) -> exists n, eval n e s = RVal w s1
  | SFork e' c => forall wc sc, (exists n, eval n c s = RVal wc sc) ->
                  forall w s1, (exists n, eval n e' sc = RVal w s1) -> exists n, eval n e s = RVal w s1
  | _ => True
  end.
Proof. exact step1_ok. Qed.
Print Assumptions C03_machine_step_preserves_meaning.

(* ... and in both directions once the one intended difference is removed: the
   sequential semantics treats a wait on a condition variable as a no-op, the
   machine releases the lock, lets other threads move and re-acquires it.
   step1s / mrun_seq is the machine with a fully applied condWait /
   condWaitTimeout executed like every other library function (the two
   machines differ nowhere else: C03_where_the_machines_differ).  Then the
   machine on one thread and the evaluator compute exactly the same results. *)
Theorem C03_sequential_machine_iff_evaluator : forall e s v s',
  (exists k, mrun_seq k e s = Some (v, s')) <-> (exists n, eval n e s = RVal v s').
Proof. exact seq_machine_iff_eval. Qed.
Print Assumptions C03_sequential_machine_iff_evaluator.

Theorem C03_where_the_machines_differ : forall vf va s,
  apply_seq vf va s <> apply_step vf va s ->
  exists p args, vf = PrimV p args /\ waits p = true /\ Nat.ltb (length (args ++ [va])) (arity p) = false.
Proof. exact apply_seq_differs. Qed.
Print Assumptions C03_where_the_machines_differ.

(* The machine and the translator: for packages of functions that call each
   other (Tr/MiniGoC.v, C01), the machine - on one thread, waits as the
   sequential semantics executes them - runs every emitted call to the value
   Go returns, through any depth of calls. *)
From GV Require Import Tr.MiniGoC Tr.MiniGoCProofs.

Theorem C03_machine_runs_emitted_calls_to_gos_value : forall P vs,
  trc_prog P = Some vs ->
  Forall2 (fun fn F => forall n args v s,
             length args = length (cf_params fn) ->
             cgo_body n P (rev (combine (cf_params fn) args)) (cf_body fn) = Some v ->
             exists k, mrun_seq k (call_expr F args) s = Some (v, s)) P vs.
Proof. exact prog_correct_on_the_machine. Qed.
Print Assumptions C03_machine_runs_emitted_calls_to_gos_value.
