(* C01 — accepted sequential programs keep their meaning in GooseLang.
   Property theorems only.  The reference semantics is Lang/GlSem.v; the model
   of the translator for the core fragment is Tr/MiniGo.v. *)
From Coq Require Import String List ZArith.
From GV Require Import Lang.GlSyntax Lang.GlSem Lang.GlSemProofs.
Import ListNotations.

(* "the result of the emitted definition under GooseLang's semantics" is well
   defined: a run that finishes (with a value or stuck) finishes with the same
   result for every larger fuel, and two finished runs agree *)
Theorem C01_more_fuel_same_result : forall n m e s r,
  (n <= m)%nat -> eval n e s = r -> r <> RFuel -> eval m e s = r.
Proof. intros n m e s r Hle H Hr. exact (eval_mono n m Hle e s r H Hr). Qed.
Print Assumptions C01_more_fuel_same_result.

Theorem C01_result_independent_of_fuel : forall n m e s r1 r2,
  eval n e s = r1 -> eval m e s = r2 -> r1 <> RFuel -> r2 <> RFuel -> r1 = r2.
Proof. exact eval_fuel_irrelevant. Qed.
Print Assumptions C01_result_independent_of_fuel.
