(* C01 — accepted sequential programs keep their meaning in GooseLang.
   Property theorems only.  The reference semantics is Lang/GlSem.v; the model
   of the translator for the core fragment is Tr/MiniGo.v. *)
From Coq Require Import String List ZArith.
From GV Require Import Lang.GlSyntax Lang.GlSem Lang.GlSemProofs.
Import ListNotations.

(* "the result of the emitted definition under GooseLang's semantics" is well
   defined: a run that finishes (with a value or stuck) finishes with the same
   result for every larger fuel, and two finished runs agree *)
Theorem C01_more_fuel_same_result : forall n m e s r,
  (n <= m)%nat -> eval n e s = r -> r <> RFuel -> eval m e s = r.
Proof. intros n m e s r Hle H Hr. exact (eval_mono n m Hle e s r H Hr). Qed.
Print Assumptions C01_more_fuel_same_result.

Theorem C01_result_independent_of_fuel : forall n m e s r1 r2,
  eval n e s = r1 -> eval m e s = r2 -> r1 <> RFuel -> r2 <> RFuel -> r1 = r2.
Proof. exact eval_fuel_irrelevant. Qed.
Print Assumptions C01_result_independent_of_fuel.

(* The core fragment (Tr/MiniGo.v: uint64 and bool values with wrap-around
   arithmetic, := and var locals with shadowing, assignment, op-assignment,
   ++/--, if/else with early returns).  tr_block is the term Coq reads from
   goose's output (checked syntactically, function by function, on every run);
   go_call is Go's semantics of the fragment (checked against the Go toolchain
   on every run).  For every function body the translator model accepts, every
   argument vector and every run of Go that returns: the emitted body, with the
   parameters replaced by the arguments, evaluates under the reference
   semantics to the value Go returns, in the store Go ends in. *)
From GV Require Import Tr.MiniGo Tr.MiniGoProofs.

Theorem C01_core_fragment_meaning_preserved : forall n tf fn e args v s',
  tr_block tf (params_env (f_params fn)) Returned (f_body fn) = Some e ->
  length args = length (f_params fn) ->
  go_call n fn args = OReturn v s' ->
  exists m, eval m (close (cs_of (rev (combine (map fst (f_params fn)) (map Imm args)))) e) state0 = RVal v s'.
Proof. exact body_correct. Qed.
Print Assumptions C01_core_fragment_meaning_preserved.

(* functions without result *)
Theorem C01_core_fragment_unit_functions : forall n tf fn e args r' s',
  tr_block tf (params_env (f_params fn)) Returned (f_body fn) = Some e ->
  length args = length (f_params fn) ->
  go_call n fn args = ONormal r' s' ->
  exists m, eval m (close (cs_of (rev (combine (map fst (f_params fn)) (map Imm args)))) e) state0 = RVal (LitV LitUnit) s'.
Proof. exact body_correct_unit. Qed.
Print Assumptions C01_core_fragment_unit_functions.

(* every statement list, every usage, every environment the translator's view
   agrees with: the general statement the two above are instances of *)
Theorem C01_statement_lists : forall n tf G u b e r s,
  tr_block tf G u b = Some e -> agree G r s -> post u e r s (go_block n r s b).
Proof. exact block_correct. Qed.
Print Assumptions C01_statement_lists.

(* expressions: operators, conversions between comparison spellings, && and || *)
Theorem C01_expressions : forall G r s, agree G r s ->
  forall e e' v, tr_expr G e = Some e' -> go_expr r s e = Some v ->
  exists m, eval m (close (cs_of r) e') s = RVal v s.
Proof. exact tr_expr_correct. Qed.
Print Assumptions C01_expressions.

(* the hypotheses are satisfiable: an accepted function with shadowing, an
   early return and updates, returning in Go *)
Theorem C01_example :
  (exists e, tr_block 20 (params_env (f_params example_fn)) Returned (f_body example_fn) = Some e) /\
  (exists s', go_call 20 example_fn [LitV (LitInt 1); LitV (LitBool true)] = OReturn (LitV (LitInt 24)) s') /\
  (exists s', go_call 20 example_fn [LitV (LitInt 40); LitV (LitBool false)] = OReturn (LitV (LitInt 81)) s').
Proof. exact example_fn_accepted_and_returns. Qed.
Print Assumptions C01_example.

(* the whole definition: the value goose emits for a function of the fragment
   (rec: "F" "p1" ... "pn" := body), applied to the argument values, evaluates
   to the value Go returns, in the store Go ends in (parameter names distinct
   from each other and from the function's name, at least one parameter) *)
Theorem C01_core_fragment_functions : forall n fn f args v s',
  tr_func fn = Some f ->
  NoDup (f_name fn :: map fst (f_params fn)) -> f_params fn <> [] ->
  length args = length (f_params fn) ->
  go_call n fn args = OReturn v s' ->
  exists m, eval m (fold_left App (map Val args) (Val f)) state0 = RVal v s'.
Proof. exact func_correct. Qed.
Print Assumptions C01_core_fragment_functions.

(* Loops (Tr/MiniGoL.v: the fragment above plus 3-clause and condition-only for
   loops with break and continue, loop variables whose binding extends over the
   following statements unless it hides a visible variable).  For every body
   without nested blocks that the translator model accepts, every argument
   vector and every returning Go run, the emitted body evaluates to Go's result;
   the general statement covers every statement list under the three usages
   (function tail, loop body, local) and every loop with any number of
   iterations. *)
From GV Require Import Tr.MiniGoL Tr.MiniGoLProofs.

Theorem C01_loops_meaning_preserved : forall n tf fn e args v s',
  trl tf (params_env (lf_params fn)) UReturned (lf_body fn) None = Some e ->
  noblocks (lf_body fn) = true ->
  length args = length (lf_params fn) ->
  lgo_call n fn args = LRet v s' ->
  exists m, eval m (close (cs_of (rev (combine (map fst (lf_params fn)) (map Imm args)))) e) state0 = RVal v s'.
Proof. exact lbody_correct. Qed.
Print Assumptions C01_loops_meaning_preserved.

Theorem C01_loops_statement_lists_and_iterations : forall n, P_lgo n /\ P_lloop n.
Proof. exact trl_correct. Qed.
Print Assumptions C01_loops_statement_lists_and_iterations.

Theorem C01_loops_example :
  (exists e, trl 30 (params_env (lf_params example_loop)) UReturned (lf_body example_loop) None = Some e) /\
  noblocks (lf_body example_loop) = true /\
  (exists s', lgo_call 200 example_loop [LitV (LitInt 6)] = LRet (LitV (LitInt 9)) s') /\
  (exists s', lgo_call 200 example_loop [LitV (LitInt 100)] = LRet (LitV (LitInt 99)) s').
Proof. exact example_loop_accepted_and_returns. Qed.
Print Assumptions C01_loops_example.

(* ... and nested blocks: the same without the restriction.  A nested block (or
   loop variable) that is followed by more statements is printed without
   delimiters unless it hides a visible variable; the theorem covers the scope
   of its bindings exactly as Coq reads the text. *)
From GV Require Import Tr.MiniGoLBlocks.

Theorem C01_loops_and_blocks_meaning_preserved : forall n tf fn e args v s',
  trl tf (params_env (lf_params fn)) UReturned (lf_body fn) None = Some e ->
  length args = length (lf_params fn) ->
  lgo_call n fn args = LRet v s' ->
  exists m, eval m (close (cs_of (rev (combine (map fst (lf_params fn)) (map Imm args)))) e) state0 = RVal v s'.
Proof. exact lbodyk_correct. Qed.
Print Assumptions C01_loops_and_blocks_meaning_preserved.

Theorem C01_loops_and_blocks_statement_lists : forall n, Q_lgo n /\ Q_lloop n.
Proof. exact trlk_correct. Qed.
Print Assumptions C01_loops_and_blocks_statement_lists.

(* ... and for the emitted definition as a whole: the curried header and the
   recursion binder of the loop fragment's functions, applied to the arguments
   (or to the unit value for a function without parameters) *)
From GV Require Import Tr.MiniGoLFunc.

Theorem C01_loops_and_blocks_functions : forall n fn f args v s',
  trl_func fn = Some f ->
  NoDup (lf_name fn :: map fst (lf_params fn)) -> lf_params fn <> [] ->
  length args = length (lf_params fn) ->
  lgo_call n fn args = LRet v s' ->
  exists m, eval m (fold_left App (map Val args) (Val f)) state0 = RVal v s'.
Proof. exact lfunc_correct. Qed.
Print Assumptions C01_loops_and_blocks_functions.

Theorem C01_loops_and_blocks_nullary_functions : forall n fn f v s',
  trl_func fn = Some f -> lf_params fn = [] ->
  lgo_call n fn [] = LRet v s' ->
  exists m, eval m (App (Val f) (Val vunit)) state0 = RVal v s'.
Proof. exact lfunc_correct_nullary. Qed.
Print Assumptions C01_loops_and_blocks_nullary_functions.

(* Calls (Tr/MiniGoC.v: packages of first-order functions over uint64 and bool
   that call each other and themselves, in any expression position).  trc_prog
   is the list of values Coq reads from goose's output for the package, in the
   order of the emitted file (checked syntactically on every run, together with
   that order: every callee before its callers); cgo_body is Go's semantics of
   the fragment with every function of the package in scope (checked against
   the Go toolchain on every run).  For every package the translator model
   accepts, every function of it, every argument vector and every returning
   run of Go - through any depth of calls and recursion - the emitted value of
   the function, applied to the arguments the way a caller applies it (to the
   unit value when there are none), evaluates under the reference semantics
   to the value Go returns. *)
From GV Require Import Tr.MiniGoC Tr.MiniGoCProofs.

Theorem C01_calls_meaning_preserved : forall P vs,
  trc_prog P = Some vs ->
  Forall2 (fun fn F => forall n args v s,
             length args = length (cf_params fn) ->
             cgo_body n P (rev (combine (cf_params fn) args)) (cf_body fn) = Some v ->
             exists m, eval m (call_expr F args) s = RVal v s) P vs.
Proof. exact prog_correct. Qed.
Print Assumptions C01_calls_meaning_preserved.

(* by name, as the harness calls the functions *)
Theorem C01_calls_by_name : forall P vs n f args v,
  trc_prog P = Some vs -> cgo_call n P f args = Some v ->
  exists i fn F, nth_error P i = Some fn /\ cf_name fn = f /\ nth_error vs i = Some F /\
    forall s, exists m, eval m (call_expr F args) s = RVal v s.
Proof. exact call_correct. Qed.
Print Assumptions C01_calls_by_name.

(* inside a body: expressions with calls, argument lists and statement lists,
   against any table of already emitted functions (the induction the two above
   rest on) *)
Theorem C01_calls_expressions_arguments_bodies : forall P n, PE P n /\ PA P n /\ PB P n.
Proof. exact all_correct. Qed.
Print Assumptions C01_calls_expressions_arguments_bodies.

(* the hypotheses are satisfiable: a package with recursion (Gcd, Use), a
   function without parameters and calls nested in arguments is accepted and
   returns in Go; a package whose functions are not in dependency order has no
   translation *)
Theorem C01_calls_example :
  (exists vs, trc_prog ex_prog = Some vs /\ length vs = 3%nat) /\
  cgo_call 200 ex_prog "Use" [LitV (LitInt 48); LitV (LitBool true)] = Some (LitV (LitInt 8)) /\
  cgo_call 200 ex_prog "Gcd" [LitV (LitInt 48); LitV (LitInt 18)] = Some (LitV (LitInt 6)).
Proof. exact ex_prog_accepted_and_returns. Qed.
Print Assumptions C01_calls_example.

(* "the value Go returns" is well defined for the fragment's Go semantics:
   two runs that return, with whatever fuel, return the same value (and by
   C01_result_independent_of_fuel so do two finished evaluations of the
   emitted term) *)
Theorem C01_calls_go_result_independent_of_fuel : forall P f args n m v w,
  cgo_call n P f args = Some v -> cgo_call m P f args = Some w -> v = w.
Proof. exact cgo_call_fuel_irrelevant. Qed.
Print Assumptions C01_calls_go_result_independent_of_fuel.

(* ... and composed with the model of goose's emission order (C04, Tr/Decls.v):
   for a package given in SOURCE order whose calls name functions of the
   package, whose functions translate on their own and whose call graph has no
   cycle other than self-calls, the definitions in the order goose emits them
   preserve meaning *)
From GV Require Import Tr.Decls Tr.DeclsProofs Tr.MiniGoCOrder.

Theorem C01_calls_in_gooses_emission_order : forall P rk order,
  NoDup (map cf_name P) ->
  (forall fn g, In fn P -> In g (callees_b (cf_body fn)) -> exists gn, In gn P /\ cf_name gn = g) ->
  (forall fn, In fn P -> exists T0 v, trc_func T0 fn = Some v) ->
  acyclic (decls_of P) rk -> emit_order (decls_of P) = Some order ->
  exists vs, trc_prog (pick P order) = Some vs /\
    Forall2 (fun fn F => forall n args v s,
               length args = length (cf_params fn) ->
               cgo_body n (pick P order) (rev (combine (cf_params fn) args)) (cf_body fn) = Some v ->
               exists m, eval m (call_expr F args) s = RVal v s) (pick P order) vs.
Proof. exact goose_order_preserves_meaning. Qed.
Print Assumptions C01_calls_in_gooses_emission_order.

(* Calls and mutable variables together (Tr/MiniGoS.v: the expressions of the
   call fragment with var-declared locals in heap cells, assignment,
   op-assignment, ++/--, := locals, if/else with early returns).  The model of
   Go threads the store - a callee allocates and updates its own cells - and
   works on the very heap of the reference semantics.  For every package the
   translator model accepts, every function, every argument vector, every
   initial store and every returning run of Go, the emitted value applied to
   the arguments evaluates to the value Go returns and ends in the store Go
   ends in, through any depth of calls and recursion. *)
From GV Require Import Tr.MiniGoS Tr.MiniGoSProofs.

Theorem C01_calls_and_variables_meaning_preserved : forall P vs,
  trs_prog P = Some vs ->
  Forall2 (fun fn F => forall n args v s s',
             length args = length (sf_params fn) ->
             sgo_body n P (rev (combine (map fst (sf_params fn)) (map Imm args))) s (sf_body fn) = Some (v, s') ->
             exists m, eval m (call_expr F args) s = RVal v s') P vs.
Proof. exact sprog_correct. Qed.
Print Assumptions C01_calls_and_variables_meaning_preserved.

Theorem C01_calls_and_variables_by_name : forall P vs n f args v s',
  trs_prog P = Some vs -> sgo_call n P f args = Some (v, s') ->
  exists i fn F, nth_error P i = Some fn /\ sf_name fn = f /\ nth_error vs i = Some F /\
    exists m, eval m (call_expr F args) state0 = RVal v s'.
Proof. exact scall_correct. Qed.
Print Assumptions C01_calls_and_variables_by_name.

(* expressions with calls (store threaded, operands in the order of the emitted
   term), argument lists (last argument first) and statement lists, against
   any table of already emitted functions, together with: every cell that
   exists stays a cell *)
Theorem C01_calls_and_variables_statement_lists : forall P n, QE P n /\ QA P n /\ QL P n /\ QB P n.
Proof. exact sall_correct. Qed.
Print Assumptions C01_calls_and_variables_statement_lists.

Theorem C01_calls_and_variables_example :
  (exists vs, trs_prog sx_prog = Some vs /\ length vs = 2%nat) /\
  (exists s', sgo_call 200 sx_prog "Use" [LitV (LitInt 4)] = Some (LitV (LitInt 45), s')) /\
  (exists s', sgo_call 200 sx_prog "Sum" [LitV (LitInt 3); LitV (LitInt 2)] = Some (LitV (LitInt 10), s')).
Proof. exact sx_prog_accepted_and_returns. Qed.
Print Assumptions C01_calls_and_variables_example.

(* ... and Go's result (value and store) in that fragment does not depend on the fuel *)
Theorem C01_calls_and_variables_go_result_independent_of_fuel : forall P f args n m x y,
  sgo_call n P f args = Some x -> sgo_call m P f args = Some y -> x = y.
Proof. exact sgo_call_fuel_irrelevant. Qed.
Print Assumptions C01_calls_and_variables_go_result_independent_of_fuel.
