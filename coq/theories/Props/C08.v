(* C08 — File header names exactly the FFI and imports the package uses.
   Property theorems only. *)
From Coq Require Import String.
From Coq Require Import List Sorted.
From GV Require Import Tr.Header Tr.HeaderProofs.
Import ListNotations.
Open Scope string_scope.

(* The FFIs found by the visit (packages.Visit with goose's callbacks) are
   exactly the FFIs of the packages reachable from the root through imports of
   NON-FFI packages: dependencies hidden behind an FFI package do not count.
   For every import graph and every ffiMapping table; [fuel_ok] says the fuel
   given to the executable model sufficed (checked on every evaluated case). *)
Theorem C08_ffi_reachability : forall ffi_mapping g fuel root f,
  fuel_ok (visit_root ffi_mapping g fuel root) = true ->
  (In f (ffis (visit_root ffi_mapping g fuel root)) <->
   exists q, reach ffi_mapping g root q /\ assoc q ffi_mapping = Some f).
Proof. exact visit_spec. Qed.
Print Assumptions C08_ffi_reachability.

(* none / the unique one / refusal when two different FFIs are reachable *)
Theorem C08_ffi_choice : forall l,
  match choose l with
  | FfiNone => l = []
  | FfiOne x => (forall y, In y l <-> y = x)
  | FfiRefuse => exists a b, In a l /\ In b l /\ a <> b
  end.
Proof. exact choose_spec. Qed.
Print Assumptions C08_ffi_choice.

(* header and footer: none = the generic ext_types section with its closing
   footer, one = that FFI's prelude and no footer, two = refused *)
Theorem C08_header_footer :
  header_footer FfiNone = Some ("Section code." ++ nl ++ "Context `{ext_ty: ext_types}." ++ nl ++ "Local Coercion Var' s: expr := Var s.",
                                nl ++ "End code." ++ nl) /\
  (forall x, header_footer (FfiOne x) = Some ("From Perennial.goose_lang Require Import ffi." ++ x ++ "_prelude.", "")) /\
  header_footer FfiRefuse = None.
Proof. repeat split. Qed.
Print Assumptions C08_header_footer.

(* every imported non-builtin package appears exactly once, in sorted order,
   and nothing else appears — whatever the order and repetition across files *)
Theorem C08_imports_exact : forall builtin imports,
  NoDup (print_imports builtin imports) /\ Sorted le_str (print_imports builtin imports) /\
  forall line, In line (print_imports builtin imports) <->
               exists p, In p imports /\ mem p builtin = false /\ line = require_line p.
Proof. exact print_imports_spec. Qed.
Theorem C08_imports_order_free : forall builtin l l', (forall p, In p l <-> In p l') ->
  forall line, In line (print_imports builtin l) <-> In line (print_imports builtin l').
Proof. exact print_imports_permutation. Qed.
Print Assumptions C08_imports_exact.
Print Assumptions C08_imports_order_free.

(* the Require's logical path is the import path with '.' and '-' mapped to
   '_' (and '/' read as '.'), and the output file is derived from the same
   mapped path *)
Theorem C08_path_mapping : forall p, is_trusted p = false ->
  require_line p = "From Goose Require " ++ map_string slash_to_dot (path_to_coq_path p) ++ "." /\
  output_path p = path_to_coq_path p ++ ".v".
Proof. exact require_matches_output_path. Qed.
Print Assumptions C08_path_mapping.

(* Non-vacuity: a graph where disk is reached transitively, async_disk hides disk, and a second FFI forces refusal *)
Example C08_example :
  let fm := [("d/disk", "disk"); ("d/async", "async_disk"); ("g/grove", "grove")] in
  let g := [("app", ["lib"; "d/async"]); ("lib", ["d/async"]); ("d/async", ["d/disk"]); ("d/disk", []);
            ("app2", ["lib"; "g/grove"]); ("g/grove", [])] in
  get_ffi fm g 100 "app" = FfiOne "async_disk" /\ get_ffi fm g 100 "app2" = FfiRefuse /\ get_ffi fm g 100 "d/disk" = FfiOne "disk" /\
  fuel_ok (visit_root fm g 100 "app") = true /\
  print_imports ["sync"] ["m/b-c"; "sync"; "m/a.x"; "m/b-c"; "m/trusted_t"] =
    ["From Goose Require m.a_x."; "From Goose Require m.b_c."; "From Perennial.goose_lang.trusted Require Import m.trusted_t."] /\
  output_path "example.com/my-mod/p.v2" = "example_com/my_mod/p_v2.v".
Proof. vm_compute. repeat split. Qed.
