(* C12 — MemFs ≡ DirFs ≡ reference model on all valid histories.
   Property theorems only.  The reference model is Fs.ref_step; MemFs is the
   mirror Fs.memfs_step of machine/filesys/mem.go (bodies frozen in Oblig/O12.v);
   DirFs is tied to the reference model by the differential runs only (the
   kernel is its implementation). *)
From Coq Require Import List ZArith Lia.
From GV Require Import Fs.Fs Fs.FsProofs.
Import ListNotations.
Open Scope Z_scope.

(* MemFs returns the reference model's results on EVERY valid history *)
Theorem C12_memfs_refines : forall h, valid_history h ->
  fouts memfs_step memfs_init h = fouts ref_step fs_init h.
Proof. exact memfs_refines. Qed.
Print Assumptions C12_memfs_refines.

(* --- the reference model has the properties the statement lists --- *)

(* every Create/Open yields an independent descriptor: it is fresh (not open,
   never handed out before: numbers only grow) and allocating it leaves every
   other descriptor untouched; closing one leaves the others untouched *)
Theorem C12_ref_fresh_descriptor : forall s o fd, ref_inv s -> snd (ref_step s o) = OFd fd ->
  alookup Nat.eqb fd (fdt s) = None /\ fd = nfd s /\ nfd (fst (ref_step s o)) = S fd /\
  (forall fd', fd' <> fd -> alookup Nat.eqb fd' (fdt (fst (ref_step s o))) = alookup Nat.eqb fd' (fdt s)).
Proof. exact ref_fresh_descriptor. Qed.
Theorem C12_ref_close_independent : forall s fd fd', fd' <> fd ->
  alookup Nat.eqb fd' (fdt (fst (ref_step s (FClose fd)))) = alookup Nat.eqb fd' (fdt s).
Proof. exact ref_close_independent. Qed.
Print Assumptions C12_ref_fresh_descriptor.
Print Assumptions C12_ref_close_independent.

(* the invariant used above holds in every reachable state *)
Theorem C12_ref_invariant : forall h, ref_inv (fst (frun ref_step fs_init h)).
Proof. intros h. apply ref_run_inv. exact ref_inv_init. Qed.
Print Assumptions C12_ref_invariant.

(* Create fails iff the name exists, and then has no side effect *)
Theorem C12_ref_create_fails_iff : forall s d n,
  snd (ref_step s (FCreate d n)) = ONoFd <->
  (mem_nat d (dirs s) = true /\ exists i, alookup path_eqb (d, n) (ents s) = Some i).
Proof. exact ref_create_fails_iff. Qed.
Theorem C12_ref_create_fail_no_side_effect : forall s d n,
  snd (ref_step s (FCreate d n)) = ONoFd -> fst (ref_step s (FCreate d n)) = s.
Proof. exact ref_create_fail_no_side_effect. Qed.
Print Assumptions C12_ref_create_fails_iff.
Print Assumptions C12_ref_create_fail_no_side_effect.

(* hard links share contents *)
Theorem C12_ref_link_shares : forall s od on nd nn,
  snd (ref_step s (FLink od on nd nn)) = OBool true ->
  let s' := fst (ref_step s (FLink od on nd nn)) in
  exists i, alookup path_eqb (od, on) (ents s') = Some i /\ alookup path_eqb (nd, nn) (ents s') = Some i.
Proof. exact ref_link_shares. Qed.
Theorem C12_ref_read_sees_appends : forall s fd i data fd' off len,
  alookup Nat.eqb fd (fdt s) = Some (i, true) -> alookup Nat.eqb fd' (fdt s) = Some (i, false) ->
  snd (ref_step (fst (ref_step s (FAppend fd data))) (FReadAt fd' off len)) =
  OBytes (read_range (data_of i s ++ data) off len).
Proof. exact ref_read_sees_appends. Qed.
Print Assumptions C12_ref_link_shares.
Print Assumptions C12_ref_read_sees_appends.

(* a deleted file stays readable through open descriptors *)
Theorem C12_ref_delete_keeps_open_files : forall s d n,
  inos (fst (ref_step s (FDelete d n))) = inos s /\ fdt (fst (ref_step s (FDelete d n))) = fdt s.
Proof. exact ref_delete_keeps_open_files. Qed.
Print Assumptions C12_ref_delete_keeps_open_files.

(* ReadAt returns exactly the bytes of [offset, offset+length) that exist *)
Theorem C12_ref_readat_spec : forall s fd i off len,
  alookup Nat.eqb fd (fdt s) = Some (i, false) -> 0 <= off -> 0 <= len ->
  exists b, snd (ref_step s (FReadAt fd off len)) = OBytes b /\
            length b = Nat.min (Z.to_nat len) (length (data_of i s) - Z.to_nat off) /\
            forall k d, (k < length b)%nat -> nth k b d = nth (Z.to_nat off + k) (data_of i s) d.
Proof. exact ref_readat_spec. Qed.
Print Assumptions C12_ref_readat_spec.

(* List returns exactly the set of names in that directory *)
Theorem C12_ref_list_spec : forall s d n, mem_nat d (dirs s) = true ->
  exists l, snd (ref_step s (FList d)) = ONames l /\
            (In n l <-> exists i, alookup path_eqb (d, n) (ents s) = Some i).
Proof. exact ref_list_spec. Qed.
Print Assumptions C12_ref_list_spec.

(* AtomicCreate installs exactly data under the name and touches no other name *)
Theorem C12_ref_atomic_create_spec : forall s d n data, mem_nat d (dirs s) = true ->
  let s' := fst (ref_step s (FAtomicCreate d n data)) in
  exists i, alookup path_eqb (d, n) (ents s') = Some i /\ data_of i s' = data /\
            forall p, p <> (d, n) -> alookup path_eqb p (ents s') = alookup path_eqb p (ents s).
Proof. exact ref_atomic_create_spec. Qed.
Print Assumptions C12_ref_atomic_create_spec.

(* "returned and passed byte slices are never aliased with file contents": in
   the models contents are values; aliasing exists only on the Go side and is
   exercised by the differential run (buffers are mutated after every call). *)

(* Non-vacuity: a valid history exercising descriptors, links, deletion and reads *)
Example C12_example :
  let h := [FMkdir 0; FCreate 0 1; FAppend 0 [1;2;3]; FOpen 0 1; FCreate 0 1; FLink 0 1 0 2; FDelete 0 1;
            FAppend 0 [4]; FReadAt 1 1 10; FOpen 0 2; FClose 1; FReadAt 2 0 2; FList 0; FAtomicCreate 0 1 [9]; FList 0] in
  fouts ref_step fs_init h =
    [OUnit; OFd 0; OUnit; OFd 1; ONoFd; OBool true; OUnit; OUnit; OBytes [2;3;4]; OFd 2; OUnit; OBytes [1;2];
     ONames [2%nat]; OUnit; ONames [1%nat;2%nat]]
  /\ valid_history h /\ fouts memfs_step memfs_init h = fouts ref_step fs_init h.
Proof.
  cbv zeta. split; [vm_compute; reflexivity|]. split; [|vm_compute; reflexivity].
  unfold valid_history. vm_compute. intuition discriminate.
Qed.
