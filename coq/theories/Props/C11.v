(* C11 — Disk contents persist across reopen; I/O failures are never silent.
   Property theorems only. *)
From Coq Require Import String.
From Coq Require Import List ZArith Lia.
From GV Require Import Base.Skel Disk.Disk Disk.DiskProofs Disk.Reopen Disk.Faults.
Import ListNotations.
Open Scope Z_scope.

(* Opening an image of ANY previous length (or none) yields a disk of exactly
   the requested number of blocks; retained bytes are preserved, new bytes are
   zero.  (n*bs < 2^63: the byte length must be a valid off_t.) *)
Theorem C11_open_spec : forall bs n prev d, 0 <= n -> n * Z.of_nat bs < 2 ^ 63 ->
  open_disk bs n prev = Some d ->
  let f := match prev with None => [] | Some f => f end in
  nblocks d = n /\ length (file d) = (Z.to_nat n * bs)%nat /\
  (forall i, (i < length f)%nat -> (i < Z.to_nat n * bs)%nat -> nth i (file d) 0 = nth i f 0) /\
  (forall i, (length f <= i)%nat -> nth i (file d) 0 = 0).
Proof. exact open_disk_spec. Qed.
Print Assumptions C11_open_spec.

Theorem C11_open_succeeds : forall bs n prev, 0 <= n -> n * Z.of_nat bs < 2 ^ 63 ->
  exists d, open_disk bs n prev = Some d.
Proof. exact open_disk_succeeds. Qed.
Print Assumptions C11_open_succeeds.

(* An opened disk is a register array over the image's blocks ... *)
Theorem C11_open_is_register_array : forall bs n prev d, 0 <= n -> n * Z.of_nat bs < 2 ^ 63 ->
  open_disk bs n prev = Some d ->
  Rfile bs d {| size := n; reg := fun a => blk_at bs (file d) (Z.to_nat a) |}.
Proof. exact open_any_image. Qed.
Print Assumptions C11_open_is_register_array.

(* ... and after ANY history, Close and reopen (same or different size), every
   later history sees the registers holding the last values written before the
   close, with zero registers beyond the old size. *)
Theorem C11_reopen : forall bs d0 s0 h n' d2 h', Rfile bs d0 s0 -> Forall addr_ok h -> Forall addr_ok h' ->
  0 <= n' -> n' * Z.of_nat bs < 2 ^ 63 ->
  open_disk bs n' (Some (close_disk (fst (run (file_step bs) d0 h)))) = Some d2 ->
  outs (file_step bs) d2 h' =
  outs (regs_step bs) (regs_reopened bs (fst (run (regs_step bs) s0 h)) n') h'.
Proof. exact reopen_outs. Qed.
Print Assumptions C11_reopen.

(* I/O failures are never silent: for ANY body accepted by the checker
   [surfaces] (per-run obligations in Oblig/O11.v instantiate it with the
   regenerated skeletons of ReadTo, Read, Write, Barrier, NewFileDisk), on every
   path — all inputs, all fault sequences — on which some system call failed,
   the body panics or returns the error. *)
Theorem C11_faults_surface : forall ss tr o s',
  surfaces ss = true -> exec ss {| err := false; pending := false |} tr o s' ->
  some_failed tr = true -> o = OPanic \/ o = OReturn true.
Proof. exact failures_never_silent. Qed.
Print Assumptions C11_faults_surface.

(* a body that starts with a system call issues it on every path (Barrier: fsync) *)
Theorem C11_first_syscall_issued : forall asg c args t s tr o s',
  is_syscall c = true -> exec (SCall asg c args :: t) s tr o s' ->
  exists failed tr', tr = (c, args, failed) :: tr'.
Proof. exact first_syscall_issued. Qed.
Print Assumptions C11_first_syscall_issued.

(* Non-vacuity: the hypotheses are met by concrete objects. *)
Example C11_example_open :
  open_disk 2 3 (Some [1;2;3]) = Some {| nblocks := 3; file := [1;2;3;0;0;0] |} /\
  open_disk 2 1 (Some [1;2;3]) = Some {| nblocks := 1; file := [1;2] |} /\
  open_disk 2 2 None = Some {| nblocks := 2; file := [0;0;0;0] |}.
Proof. vm_compute. repeat split. Qed.

Example C11_example_fault_path :
  let body := [SCall ["err"%string] "unix.Fsync"%string ["d.fd"%string];
               SIf "err != nil"%string [SCall [] "panic"%string ["x"%string]] []] in
  surfaces body = true /\
  exec body {| err := false; pending := false |} [("unix.Fsync"%string, ["d.fd"%string], true)] OPanic {| err := true; pending := true |}.
Proof.
  cbv zeta. split; [vm_compute; reflexivity|].
  eapply E_sys_fail; [reflexivity|]. cbn.
  change [("unix.Fsync"%string, ["d.fd"%string], true)] with ([("unix.Fsync"%string, ["d.fd"%string], true)]).
  eapply (E_if_stop "err != nil"%string _ _ [SCall [] "panic"%string ["x"%string]] [] _ []).
  - reflexivity.
  - apply E_panic.
  - discriminate.
Qed.
