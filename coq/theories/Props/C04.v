(* C04 — every declaration emitted once, defined before use.
   Property theorems only.  Tr/Decls.v models interface.go Ctx.Decls: each
   top-level declaration is translated on its own into its definitions, the
   names it introduces and the names it mentions (inputs here), then emitted by
   the depth-first visit processDecl over the declarations in file order. *)
From Coq Require Import String List Arith.
From GV Require Import Tr.Decls Tr.DeclsProofs.
Import ListNotations.

(* each declaration is emitted exactly once, whatever the dependency graph
   (cyclic or not), the order of the declarations and the split over files *)
Theorem C04_each_declaration_once : forall ds order,
  emit_order ds = Some order ->
  NoDup order /\ forall id, id < length ds -> In id order.
Proof. exact emitted_once. Qed.
Print Assumptions C04_each_declaration_once.

(* whenever the dependency graph is acyclic (some rank decreases along every
   edge to another declaration), every declaration comes after every
   declaration it mentions, for every order of the declarations *)
Theorem C04_defined_before_use : forall ds rk order,
  acyclic ds rk -> emit_order ds = Some order ->
  forall pre id post, order = pre ++ id :: post -> forall j, edge ds id j -> In j pre.
Proof. exact defined_before_use. Qed.
Print Assumptions C04_defined_before_use.

(* the emission is total: the model never runs out of fuel, so the two theorems
   above speak about every package *)
Theorem C04_emission_total : forall ds, exists order, emit_order ds = Some order.
Proof. exact emit_order_total. Qed.
Print Assumptions C04_emission_total.

(* a declaration that mentions itself (recursion) does not disturb the order *)
Example C04_example :
  emit_order [ {| d_names := ["f"%string]; d_deps := ["g"%string; "T"%string] |};
               {| d_names := ["g"%string]; d_deps := ["T"%string; "g"%string] |};
               {| d_names := ["T"%string]; d_deps := [] |} ] = Some [2; 1; 0].
Proof. exact order_example. Qed.
Print Assumptions C04_example.
