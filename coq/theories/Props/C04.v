(* C04 — every declaration emitted once, defined before use.
   Property theorems only.  Tr/Decls.v models interface.go Ctx.Decls: each
   top-level declaration is translated on its own into its definitions, the
   names it introduces and the names it mentions (inputs here), then emitted by
   the depth-first visit processDecl over the declarations in file order. *)
From Coq Require Import String List Arith.
From GV Require Import Tr.Decls Tr.DeclsProofs.
Import ListNotations.

(* each declaration is emitted exactly once, whatever the dependency graph
   (cyclic or not), the order of the declarations and the split over files *)
Theorem C04_each_declaration_once : forall ds order,
  emit_order ds = Some order ->
  NoDup order /\ forall id, id < length ds -> In id order.
Proof. exact emitted_once. Qed.
Print Assumptions C04_each_declaration_once.

(* whenever the dependency graph is acyclic (some rank decreases along every
   edge to another declaration), every declaration comes after every
   declaration it mentions, for every order of the declarations *)
Theorem C04_defined_before_use : forall ds rk order,
  acyclic ds rk -> emit_order ds = Some order ->
  forall pre id post, order = pre ++ id :: post -> forall j, edge ds id j -> In j pre.
Proof. exact defined_before_use. Qed.
Print Assumptions C04_defined_before_use.

(* the emission is total: the model never runs out of fuel, so the two theorems
   above speak about every package *)
Theorem C04_emission_total : forall ds, exists order, emit_order ds = Some order.
Proof. exact emit_order_total. Qed.
Print Assumptions C04_emission_total.

(* a declaration that mentions itself (recursion) does not disturb the order *)
Example C04_example :
  emit_order [ {| d_names := ["f"%string]; d_deps := ["g"%string; "T"%string] |};
               {| d_names := ["g"%string]; d_deps := ["T"%string; "g"%string] |};
               {| d_names := ["T"%string]; d_deps := [] |} ] = Some [2; 1; 0].
Proof. exact order_example. Qed.
Print Assumptions C04_example.

(* ---- uniquely named.  Tr/Names.v: a function, type, constant or variable keeps
   its Go name, the method m of T is called T__m (internal/coq/coq.go MethodName).
   In a package whose identifiers contain no underscore the Coq names of the
   declarations are pairwise distinct (Go already guarantees distinct
   package-level identifiers and at most one method m per type) ... *)
From GV Require Import Tr.Names Tr.NamesProofs.

Theorem C04_names_unique_partial : forall ds, go_valid ds -> plain ds -> NoDup (map coq_name ds).
Proof. exact names_unique_plain. Qed.
Print Assumptions C04_names_unique_partial.

Theorem C04_method_name_injective : forall t1 m1 t2 m2,
  no_us t1 = true -> no_us t2 = true -> method_name t1 m1 = method_name t2 m2 -> t1 = t2 /\ m1 = m2.
Proof. exact method_name_injective. Qed.
Print Assumptions C04_method_name_injective.

(* ... and the full statement (every Go-valid package) is false of the code:
   method b of A against function A__b, and — with no doubled underscore in
   any identifier — method b of a_ against method _b of a.  Both witnesses are
   catalogue items replayed on the real goose (known findings
   order_name_collision, order_name_collision_underscores: "already exists") *)
Theorem C04_names_unique_refuted : exists ds, go_valid ds /\ ~ NoDup (map coq_name ds).
Proof. exact names_unique_refuted. Qed.
Print Assumptions C04_names_unique_refuted.

Theorem C04_names_unique_refuted_single_underscores : exists ds, go_valid ds /\ ~ NoDup (map coq_name ds).
Proof. exact names_unique_refuted_single_underscores. Qed.
Print Assumptions C04_names_unique_refuted_single_underscores.

Example C04_names_example :
  go_valid [GType "Log"; GMethod "Log" "Append"; GFunc "Open"; GConst "MaxLen"] /\
  plain [GType "Log"; GMethod "Log" "Append"; GFunc "Open"; GConst "MaxLen"].
Proof. exact plain_package_is_covered. Qed.

(* Emitted files as Coq reads them: for packages of functions that call each
   other (Tr/MiniGoC.v; the list handed to trc_prog is goose's emitted order,
   and trc_prog = goose's output is checked by Coq's kernel on every run,
   profile minigoc) acceptance by the model implies the three clauses of the
   property at once - one value per function, pairwise distinct names, and
   every callee other than the function itself strictly earlier in the file. *)
From GV Require Import Lang.GlSyntax Tr.MiniGoC Tr.MiniGoCProofs.

Theorem C04_accepted_packages_once_distinct_callee_first : forall P vs,
  trc_prog P = Some vs ->
  length vs = length P /\ NoDup (map cf_name P) /\
  forall i fn g, nth_error P i = Some fn -> In g (callees_b (cf_body fn)) ->
    g = cf_name fn \/ exists j gn, (j < i)%nat /\ nth_error P j = Some gn /\ cf_name gn = g.
Proof. exact accepted_in_dependency_order. Qed.
Print Assumptions C04_accepted_packages_once_distinct_callee_first.

(* ... and a package whose functions are not in that order is not accepted *)
Example C04_use_before_definition_rejected : trc_prog [ex_use; ex_gcd; ex_seven] = None.
Proof. exact rejects_use_before_definition. Qed.

(* The two models composed: goose's emission order (Tr/Decls.v, any package) is
   an order the call theorem of C01 applies to.  For every package of the
   MiniGoC fragment in SOURCE order - distinct function names, every call
   naming a function of the package, every function translatable on its own,
   no cycle of calls other than a function calling itself - the order the
   depth-first visit computes is accepted by trc_prog; what goose emits for it
   therefore preserves meaning (C01_calls_meaning_preserved). *)
From GV Require Import Tr.MiniGoCOrder.

Theorem C04_emission_order_is_accepted_by_the_call_theorem : forall P rk order,
  NoDup (map cf_name P) ->
  (forall fn g, In fn P -> In g (callees_b (cf_body fn)) -> exists gn, In gn P /\ cf_name gn = g) ->
  (forall fn, In fn P -> exists T0 v, trc_func T0 fn = Some v) ->
  acyclic (decls_of P) rk -> emit_order (decls_of P) = Some order ->
  exists vs, trc_prog (pick P order) = Some vs.
Proof. intros P rk order H1 H2 H3 H4 H5. exact (goose_order_is_accepted P H1 H2 H3 rk H4 order H5). Qed.
Print Assumptions C04_emission_order_is_accepted_by_the_call_theorem.

Example C04_emission_order_example :
  emit_order (decls_of ex_src) = Some [1; 2; 0]%nat /\
  (NoDup (map cf_name ex_src) /\
   (forall fn g, In fn ex_src -> In g (callees_b (cf_body fn)) -> exists gn, In gn ex_src /\ cf_name gn = g) /\
   (forall fn, In fn ex_src -> exists T0 v, trc_func T0 fn = Some v) /\
   acyclic (decls_of ex_src) ex_rk).
Proof. split; [exact ex_src_order|exact ex_src_hypotheses]. Qed.
