(* C06 — translation is deterministic and packages do not influence each other.
   Property theorems only.  Tr/Workers.v models TranslatePackages (one worker
   per package storing into its own slots); Tr/Decls.v and Tr/Header.v model
   the per-package translation as functions of the sources (a Coq function has
   one value: determinism of those parts is the statement that the code is what
   the functions mirror, which the per-run obligations check). *)
From Coq Require Import List Permutation.
From GV Require Import Tr.Workers Tr.WorkersProofs.
Import ListNotations.

(* for every number of packages and every interleaving of the workers' stores
   (hence every scheduling and GOMAXPROCS), the joined result is the sequential
   map of the per-package translation: slot i holds package i's file and error *)
Theorem C06_worker_schedule_independent : forall (A B : Type) (rs : list (A * B)) sch,
  Permutation sch (all_events A B rs) -> run A B rs sch = joined A B rs.
Proof. exact schedule_independent. Qed.
Print Assumptions C06_worker_schedule_independent.

(* packages do not influence each other: a package's slots depend on that
   package's translation only *)
Theorem C06_slot_depends_on_own_package : forall (A B : Type) (rs1 rs2 : list (A * B)) i sch1 sch2,
  nth_error rs1 i = nth_error rs2 i ->
  Permutation sch1 (all_events A B rs1) -> Permutation sch2 (all_events A B rs2) ->
  nth_error (fst (run A B rs1 sch1)) i = nth_error (fst (run A B rs2 sch2)) i /\
  nth_error (snd (run A B rs1 sch1)) i = nth_error (snd (run A B rs2 sch2)) i.
Proof.
  intros A B rs1 rs2 i sch1 sch2 H P1 P2.
  rewrite (schedule_independent A B rs1 sch1 P1), (schedule_independent A B rs2 sch2 P2).
  unfold joined. cbn [fst snd]. rewrite !nth_error_map, H. auto.
Qed.
Print Assumptions C06_slot_depends_on_own_package.
