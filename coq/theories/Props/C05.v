(* C05 — output is well-formed and source text cannot alter its structure.
   Property theorems only.  Tr/Lex.v models how Coq lexes comments and string
   literals and what buffer.AddComment does to the text of a Go comment or
   logging call. *)
From Coq Require Import String Ascii List.
From GV Require Import Tr.Lex Tr.LexProofs.
Import ListNotations.
Local Open Scope char_scope.

(* for EVERY Go comment text (any characters: comment delimiters in any
   overlap, quotes, newlines, non-ASCII bytes), the text AddComment emits is
   exactly one Coq comment: read from its opening delimiter, the lexer closes it
   at its own closing delimiter and continues with exactly what follows *)
Theorem C05_comment_cannot_escape : forall c rest,
  scan 1 false (" " :: sanitize c ++ [" "; "*"; ")"] ++ rest) = LClosed rest.
Proof. exact comment_is_one_comment. Qed.
Print Assumptions C05_comment_cannot_escape.

(* the repair of unmatched quotes is necessary: with the two replacements alone
   (the code before the fix: commit) the statement is false *)
Theorem C05_comment_without_quote_repair_refuted :
  exists c rest, scan 1 false (" " :: sanitize_old c ++ [" "; "*"; ")"] ++ rest) <> LClosed rest.
Proof. exact comment_with_odd_quote_refuted. Qed.
Print Assumptions C05_comment_without_quote_repair_refuted.

(* a string literal without double quotes (goose rejects the others) printed
   between quotes is read back as exactly that text, and what follows is left *)
Theorem C05_string_literal_read_back : forall s rest,
  quotes s = 0 -> hd " " rest <> """" ->
  scan_string (s ++ """" :: rest) [] = Some (s, rest).
Proof. exact string_literal_read_back. Qed.
Print Assumptions C05_string_literal_read_back.
