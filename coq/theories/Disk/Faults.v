(* Fault semantics of statement skeletons and the checker [surfaces].

   Every call of a function in package unix ("unix.X") is a system call that
   may fail.  A failing call sets the variable err it is assigned to (if any)
   and marks the path as [pending]: an I/O failure has happened.  The theorem
   says: if [surfaces body = true] then on every path through the body on which
   some system call failed, the body does not end normally and does not return
   without mentioning err — it panics or returns the error.  Conditions other
   than "err != nil" are treated as nondeterministic, loops run any number of
   times, so the statement covers every input and every fault sequence. *)
From Coq Require Import String List Bool.
From GV Require Import Base.Skel Base.Tables.
Import ListNotations.
Open Scope string_scope.

Definition is_syscall (c : string) : bool := prefix "unix." c.
Definition binds_err (asg : list string) : bool := mem_string "err" asg.
Definition err_check : string := "err != nil".

Record st := { err : bool; pending : bool }.
Inductive outcome := ONormal | OBreak | OPanic | OReturn (mentions_err : bool).

Definition after_ok (asg : list string) (s : st) : st :=
  if binds_err asg then {| err := false; pending := pending s |} else s.
Definition after_fail (asg : list string) (s : st) : st :=
  {| err := if binds_err asg then true else err s; pending := true |}.
Definition havoc_err (touched : bool) (b : bool) (s : st) : st :=
  if touched then {| err := b; pending := pending s |} else s.

Definition event := (string * list string * bool)%type.   (* callee, args, failed *)

Definition aborting (o : outcome) : Prop := o = OPanic \/ exists e, o = OReturn e.

Definition branch_of (c : string) (s : st) (thn els br : list sk) : Prop :=
  if String.eqb c err_check then br = (if err s then thn else els) else (br = thn \/ br = els).

Inductive exec : list sk -> st -> list event -> outcome -> st -> Prop :=
| E_nil s : exec [] s [] ONormal s
| E_sys_ok asg c args t s tr o s' :
    is_syscall c = true -> exec t (after_ok asg s) tr o s' ->
    exec (SCall asg c args :: t) s ((c, args, false) :: tr) o s'
| E_sys_fail asg c args t s tr o s' :
    is_syscall c = true -> exec t (after_fail asg s) tr o s' ->
    exec (SCall asg c args :: t) s ((c, args, true) :: tr) o s'
| E_panic asg args t s : exec (SCall asg "panic" args :: t) s [] OPanic s
| E_call asg c args t s b tr o s' :
    is_syscall c = false -> c <> "panic" ->
    exec t (havoc_err (binds_err asg) b s) tr o s' ->
    exec (SCall asg c args :: t) s tr o s'
| E_defer c args t s tr o s' : exec t s tr o s' -> exec (SDefer c args :: t) s tr o s'
| E_go c args t s tr o s' : exec t s tr o s' -> exec (SGo c args :: t) s tr o s'
| E_if_seq c thn els br t s tr1 s1 tr o s' :
    branch_of c s thn els br -> exec br s tr1 ONormal s1 -> exec t s1 tr o s' ->
    exec (SIf c thn els :: t) s (tr1 ++ tr) o s'
| E_if_stop c thn els br t s tr1 o s1 :
    branch_of c s thn els br -> exec br s tr1 o s1 -> o <> ONormal ->
    exec (SIf c thn els :: t) s tr1 o s1
| E_for_exit c b t s tr o s' : exec t s tr o s' -> exec (SFor c b :: t) s tr o s'
| E_for_iter c b t s tr1 s1 tr o s' :
    exec b s tr1 ONormal s1 -> exec (SFor c b :: t) s1 tr o s' ->
    exec (SFor c b :: t) s (tr1 ++ tr) o s'
| E_for_break c b t s tr1 s1 tr o s' :
    exec b s tr1 OBreak s1 -> exec t s1 tr o s' -> exec (SFor c b :: t) s (tr1 ++ tr) o s'
| E_for_abort c b t s tr1 o s1 :
    exec b s tr1 o s1 -> aborting o -> exec (SFor c b :: t) s tr1 o s1
| E_range_exit c b t s tr o s' : exec t s tr o s' -> exec (SRange c b :: t) s tr o s'
| E_range_iter c b t s tr1 s1 tr o s' :
    exec b s tr1 ONormal s1 -> exec (SRange c b :: t) s1 tr o s' ->
    exec (SRange c b :: t) s (tr1 ++ tr) o s'
| E_range_break c b t s tr1 s1 tr o s' :
    exec b s tr1 OBreak s1 -> exec t s1 tr o s' -> exec (SRange c b :: t) s (tr1 ++ tr) o s'
| E_range_abort c b t s tr1 o s1 :
    exec b s tr1 o s1 -> aborting o -> exec (SRange c b :: t) s tr1 o s1
| E_return vs t s : exec (SReturn vs :: t) s [] (OReturn (any_contains "err" vs)) s
| E_assign lhs rhs t s b tr o s' :
    exec t (havoc_err (binds_err lhs) b s) tr o s' -> exec (SAssign lhs rhs :: t) s tr o s'
| E_break t s : exec (SBreak :: t) s [] OBreak s
| E_other x t s tr o s' : exec t s tr o s' -> exec (SOther x :: t) s tr o s'.

(* a block that certainly reports the error: it starts by panicking or by
   returning a value list that mentions err *)
Definition aborts (ss : list sk) : bool :=
  match ss with
  | SCall _ c _ :: _ => String.eqb c "panic"
  | SReturn vs :: _ => any_contains "err" vs
  | _ => false
  end.

Definition is_nil {A} (l : list A) : bool := match l with [] => true | _ => false end.

(* the checker *)
Definition checks_err (s : sk) : bool :=
  match s with
  | SIf cond thn els => String.eqb cond err_check && aborts thn && is_nil els
  | _ => false
  end.

Definition stmt_is_syscall (s : sk) : bool :=
  match s with SCall _ c _ => is_syscall c | _ => false end.

(* every statement is fine and every system call is immediately followed by
   an "if err != nil" that panics or returns the error *)
Definition seq_ok (f : sk -> bool) : list sk -> bool :=
  fix go (l : list sk) : bool :=
  match l with
  | [] => true
  | s :: t =>
      f s &&
      (if stmt_is_syscall s then match t with n :: _ => checks_err n | [] => false end else true) &&
      go t
  end.

Fixpoint stmt_ok (s : sk) : bool :=
  match s with
  | SCall asg c _ =>
      if is_syscall c then binds_err asg
      else String.eqb c "panic" || negb (binds_err asg)
  | SIf _ thn els => seq_ok stmt_ok thn && seq_ok stmt_ok els
  | SFor _ b => seq_ok stmt_ok b
  | SRange _ b => seq_ok stmt_ok b
  | SAssign lhs _ => negb (binds_err lhs)
  | SOther _ => false
  | SDefer _ _ | SGo _ _ | SReturn _ | SBreak => true
  end.

Definition surfaces (ss : list sk) : bool := seq_ok stmt_ok ss.

Definition benign (o : outcome) : Prop := o = ONormal \/ o = OBreak \/ o = OReturn false.

(* ------------------------------------------------------------------ proofs *)
Lemma aborts_exec b s tr o s' : aborts b = true -> exec b s tr o s' -> o = OPanic \/ o = OReturn true.
Proof.
  intros Ha He. destruct b as [|x t]; [discriminate|].
  destruct x; try discriminate; cbn [aborts] in Ha.
  - apply String.eqb_eq in Ha. subst callee.
    inversion He; subst; auto.
    + match goal with H : is_syscall "panic" = true |- _ => discriminate H end.
    + match goal with H : is_syscall "panic" = true |- _ => discriminate H end.
    + match goal with H : "panic" <> "panic" |- _ => contradiction H; reflexivity end.
  - inversion He; subst. right. now rewrite Ha.
Qed.

Definition guarded (ss : list sk) (s : st) : Prop :=
  pending s = false \/
  (err s = true /\ match ss with n :: _ => checks_err n = true | [] => False end).

Lemma seq_ok_cons f x t : seq_ok f (x :: t) = true ->
  f x = true /\ (stmt_is_syscall x = true -> match t with n :: _ => checks_err n = true | [] => False end) /\ seq_ok f t = true.
Proof.
  intros H. change (f x && (if stmt_is_syscall x then match t with n :: _ => checks_err n | [] => false end else true) && seq_ok f t = true) in H.
  apply andb_prop in H as [H H3]. apply andb_prop in H as [H1 H2].
  repeat split; auto. intros Hs. rewrite Hs in H2. destruct t; [discriminate|exact H2].
Qed.

Lemma guarded_not_check x t s : checks_err x = false -> guarded (x :: t) s -> pending s = false.
Proof. intros Hc [H|[_ H]]; [exact H|]. congruence. Qed.

Lemma not_benign_abort o : o = OPanic \/ o = OReturn true -> benign o -> False.
Proof. intros [->| ->] [H|[H|H]]; discriminate. Qed.

Ltac notcheck Hg :=
  match type of Hg with guarded (?x :: ?t) ?s => pose proof (guarded_not_check x t s eq_refl Hg) as Hp end.

Theorem surfaces_sound_gen ss s tr o s' : exec ss s tr o s' ->
  seq_ok stmt_ok ss = true -> guarded ss s -> benign o -> pending s' = false.
Proof.
  induction 1 as
    [ s
    | asg c args t s tr o s' Hsys He IH
    | asg c args t s tr o s' Hsys He IH
    | asg args t s
    | asg c args t s b tr o s' Hns Hnp He IH
    | c args t s tr o s' He IH
    | c args t s tr o s' He IH
    | c thn els br t s tr1 s1 tr o s' Hbr He1 IH1 He2 IH2
    | c thn els br t s tr1 o s1 Hbr He1 IH1 Hno
    | c b t s tr o s' He IH
    | c b t s tr1 s1 tr o s' He1 IH1 He2 IH2
    | c b t s tr1 s1 tr o s' He1 IH1 He2 IH2
    | c b t s tr1 o s1 He1 IH1 Hab
    | c b t s tr o s' He IH
    | c b t s tr1 s1 tr o s' He1 IH1 He2 IH2
    | c b t s tr1 s1 tr o s' He1 IH1 He2 IH2
    | c b t s tr1 o s1 He1 IH1 Hab
    | vs t s
    | lhs rhs t s b tr o s' He IH
    | t s
    | x t s tr o s' He IH ]; intros Hok Hg Hb.
  - destruct Hg as [H|[_ []]]. exact H.
  - (* syscall succeeds *)
    apply seq_ok_cons in Hok as (Hst & Hnext & Hrest).
    notcheck Hg.
    apply IH; auto. left. unfold after_ok. destruct (binds_err asg); exact Hp.
  - (* syscall fails *)
    apply seq_ok_cons in Hok as (Hst & Hnext & Hrest).
    cbn [stmt_ok] in Hst. rewrite Hsys in Hst.
    apply IH; auto. right. unfold after_fail; cbn [err]. rewrite Hst. split; [reflexivity|].
    apply Hnext. exact Hsys.
  - destruct Hb as [H|[H|H]]; discriminate.
  - apply seq_ok_cons in Hok as (Hst & Hnext & Hrest).
    notcheck Hg.
    cbn [stmt_ok] in Hst. rewrite Hns in Hst.
    apply IH; auto. left. unfold havoc_err. destruct (binds_err asg); exact Hp.
  - apply seq_ok_cons in Hok as (Hst & Hnext & Hrest).
    notcheck Hg. apply IH; auto. now left.
  - apply seq_ok_cons in Hok as (Hst & Hnext & Hrest).
    notcheck Hg. apply IH; auto. now left.
  - (* if, branch ends normally *)
    apply seq_ok_cons in Hok as (Hst & Hnext & Hrest).
    cbn [stmt_ok] in Hst. apply andb_prop in Hst as [Hthn Hels].
    destruct Hg as [Hp|[Herr Hchk]].
    + assert (Hbrok : seq_ok stmt_ok br = true).
      { unfold branch_of in Hbr. destruct (String.eqb c err_check).
        - subst br. destruct (err s); assumption.
        - destruct Hbr; subst br; assumption. }
      assert (Hp1 : pending s1 = false) by (apply IH1; auto; [now left|now left]).
      apply IH2; auto. now left.
    + cbn [checks_err] in Hchk. apply andb_prop in Hchk as [Hchk Hnil].
      apply andb_prop in Hchk as [Hc Hab].
      unfold branch_of in Hbr. rewrite Hc, Herr in Hbr. subst br.
      exfalso. destruct (aborts_exec _ _ _ _ _ Hab He1) as [H|H]; discriminate.
  - (* if, branch stops *)
    apply seq_ok_cons in Hok as (Hst & Hnext & Hrest).
    cbn [stmt_ok] in Hst. apply andb_prop in Hst as [Hthn Hels].
    destruct Hg as [Hp|[Herr Hchk]].
    + assert (Hbrok : seq_ok stmt_ok br = true).
      { unfold branch_of in Hbr. destruct (String.eqb c err_check).
        - subst br. destruct (err s); assumption.
        - destruct Hbr; subst br; assumption. }
      apply IH1; auto. now left.
    + cbn [checks_err] in Hchk. apply andb_prop in Hchk as [Hchk Hnil].
      apply andb_prop in Hchk as [Hc Hab].
      unfold branch_of in Hbr. rewrite Hc, Herr in Hbr. subst br.
      exfalso. eapply not_benign_abort; [eapply aborts_exec; eauto|exact Hb].
  - apply seq_ok_cons in Hok as (Hst & Hnext & Hrest).
    notcheck Hg. apply IH; auto. now left.
  - notcheck Hg.
    pose proof Hok as Hok'. apply seq_ok_cons in Hok' as (Hst & Hnext & Hrest). cbn [stmt_ok] in Hst.
    assert (Hp1 : pending s1 = false) by (apply IH1; auto; [now left|now left]).
    apply IH2; auto. now left.
  - notcheck Hg.
    apply seq_ok_cons in Hok as (Hst & Hnext & Hrest). cbn [stmt_ok] in Hst.
    assert (Hp1 : pending s1 = false) by (apply IH1; auto; [now left|right; now left]).
    apply IH2; auto. now left.
  - notcheck Hg.
    apply seq_ok_cons in Hok as (Hst & Hnext & Hrest). cbn [stmt_ok] in Hst.
    apply IH1; auto. now left.
  - apply seq_ok_cons in Hok as (Hst & Hnext & Hrest).
    notcheck Hg. apply IH; auto. now left.
  - notcheck Hg.
    pose proof Hok as Hok'. apply seq_ok_cons in Hok' as (Hst & Hnext & Hrest). cbn [stmt_ok] in Hst.
    assert (Hp1 : pending s1 = false) by (apply IH1; auto; [now left|now left]).
    apply IH2; auto. now left.
  - notcheck Hg.
    apply seq_ok_cons in Hok as (Hst & Hnext & Hrest). cbn [stmt_ok] in Hst.
    assert (Hp1 : pending s1 = false) by (apply IH1; auto; [now left|right; now left]).
    apply IH2; auto. now left.
  - notcheck Hg.
    apply seq_ok_cons in Hok as (Hst & Hnext & Hrest). cbn [stmt_ok] in Hst.
    apply IH1; auto. now left.
  - notcheck Hg. exact Hp.
  - apply seq_ok_cons in Hok as (Hst & Hnext & Hrest).
    notcheck Hg. cbn [stmt_ok] in Hst.
    apply IH; auto. left. unfold havoc_err. destruct (binds_err lhs); exact Hp.
  - notcheck Hg. exact Hp.
  - apply seq_ok_cons in Hok as (Hst & _). discriminate Hst.
Qed.

(* The theorem: started with no failure pending, a body accepted by the
   checker never ends normally (or returns without the error) on a path on
   which a system call failed. *)
Theorem surfaces_sound ss tr o s' :
  surfaces ss = true -> exec ss {| err := false; pending := false |} tr o s' ->
  benign o -> pending s' = false.
Proof.
  intros Hs He Hb. eapply surfaces_sound_gen; eauto. now left.
Qed.

(* pending is exactly "some system call in the trace failed" *)
Definition some_failed (tr : list event) : bool := existsb (fun e => snd e) tr.

Lemma some_failed_app a b : some_failed (a ++ b) = some_failed a || some_failed b.
Proof. apply existsb_app. Qed.

Lemma exec_pending ss s tr o s' : exec ss s tr o s' -> pending s' = pending s || some_failed tr.
Proof.
  induction 1 as
    [ s
    | asg c args t s tr o s' Hsys He IH
    | asg c args t s tr o s' Hsys He IH
    | asg args t s
    | asg c args t s b tr o s' Hns Hnp He IH
    | c args t s tr o s' He IH
    | c args t s tr o s' He IH
    | c thn els br t s tr1 s1 tr o s' Hbr He1 IH1 He2 IH2
    | c thn els br t s tr1 o s1 Hbr He1 IH1 Hno
    | c b t s tr o s' He IH
    | c b t s tr1 s1 tr o s' He1 IH1 He2 IH2
    | c b t s tr1 s1 tr o s' He1 IH1 He2 IH2
    | c b t s tr1 o s1 He1 IH1 Hab
    | c b t s tr o s' He IH
    | c b t s tr1 s1 tr o s' He1 IH1 He2 IH2
    | c b t s tr1 s1 tr o s' He1 IH1 He2 IH2
    | c b t s tr1 o s1 He1 IH1 Hab
    | vs t s
    | lhs rhs t s b tr o s' He IH
    | t s
    | x t s tr o s' He IH ];
  rewrite ?some_failed_app; try (cbn [some_failed existsb snd]; fold some_failed);
  try (rewrite orb_false_r; reflexivity); try assumption.
  - rewrite IH. unfold after_ok. destruct (binds_err asg); reflexivity.
  - rewrite IH. cbn [pending after_fail]. now rewrite orb_true_r.
  - rewrite IH. unfold havoc_err. destruct (binds_err asg); reflexivity.
  - rewrite IH2, IH1. now rewrite orb_assoc.
  - rewrite IH2, IH1. now rewrite orb_assoc.
  - rewrite IH2, IH1. now rewrite orb_assoc.
  - rewrite IH2, IH1. now rewrite orb_assoc.
  - rewrite IH2, IH1. now rewrite orb_assoc.
  - rewrite IH. unfold havoc_err. destruct (binds_err lhs); reflexivity.
Qed.

Corollary failures_never_silent ss tr o s' :
  surfaces ss = true -> exec ss {| err := false; pending := false |} tr o s' ->
  some_failed tr = true -> o = OPanic \/ o = OReturn true.
Proof.
  intros Hs He Hf.
  pose proof (exec_pending _ _ _ _ _ He) as Hp. cbn [pending orb] in Hp. rewrite Hf in Hp.
  destruct o as [| | |[|]]; auto; exfalso;
    (assert (Hb : pending s' = false)
       by (eapply surfaces_sound; eauto; unfold benign; auto)); congruence.
Qed.

(* a body whose first statement is the system call c(args) issues it on every path *)
Lemma first_syscall_issued asg c args t s tr o s' :
  is_syscall c = true -> exec (SCall asg c args :: t) s tr o s' ->
  exists failed tr', tr = (c, args, failed) :: tr'.
Proof.
  intros Hs He. inversion He; subst; eauto.
  - discriminate.
  - congruence.
Qed.
