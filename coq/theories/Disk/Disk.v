(* Models of machine/disk: the register-array specification, a mirror of
   MemDisk (mem.go) and a mirror of FileDisk (file.go) over a flat byte file.
   Bytes are Z; [bs] is the block size (disk.BlockSize, regenerated and checked
   to be 4096 in Oblig/O09.v); addresses and sizes are Z (uint64 values). *)
From Coq Require Import List ZArith Lia Bool.
Import ListNotations.
Open Scope Z_scope.

Definition block := list Z.

Inductive op :=
| ORead (a : Z)                   (* d.Read(a)              -> fresh block *)
| OReadTo (a : Z) (buf : block)   (* d.ReadTo(a, buf)       -> contents of buf afterwards *)
| OWrite (a : Z) (v : block)      (* d.Write(a, v) *)
| OSize
| OBarrier.

Inductive out :=
| RBlock (b : block)
| RUnit
| RSize (n : Z)
| RRefused.                       (* the call panicked *)

Definition zeros (k : nat) : block := repeat 0 k.

Section WithBlockSize.
Variable bs : nat.

(* ------------------------------------------------------------------ spec *)
(* An array of [size] independent registers, initially zero. *)
Record regs := { size : Z; reg : Z -> block }.

Definition regs_init (n : Z) : regs := {| size := n; reg := fun _ => zeros bs |}.

Definition in_range (n a : Z) : bool := (0 <=? a) && (a <? n).

Definition regs_step (s : regs) (o : op) : regs * out :=
  match o with
  | ORead a => if in_range (size s) a then (s, RBlock (reg s a)) else (s, RRefused)
  | OReadTo a buf =>
      if negb (Nat.eqb (length buf) bs) then (s, RRefused)   (* outside the contract; see FileDisk *)
      else if in_range (size s) a then (s, RBlock (reg s a)) else (s, RRefused)
  | OWrite a v =>
      if negb (Nat.eqb (length v) bs) then (s, RRefused)
      else if in_range (size s) a
           then ({| size := size s; reg := fun a' => if Z.eqb a' a then v else reg s a' |}, RUnit)
           else (s, RRefused)
  | OSize => (s, RSize (size s))
  | OBarrier => (s, RUnit)
  end.

(* ------------------------------------------------------------------ MemDisk *)
(* blocks [][BlockSize]byte: a list of blocks, each of length bs.  Go's copy
   copies min(len dst, len src) elements. *)
Definition copy_into (dst src : block) : block :=
  firstn (length dst) src ++ skipn (length src) dst.

Fixpoint set_nth {A} (l : list A) (i : nat) (x : A) : list A :=
  match l, i with
  | [], _ => []
  | _ :: t, O => x :: t
  | h :: t, S i' => h :: set_nth t i' x
  end.

Definition mem := list block.
Definition mem_init (n : Z) : mem := repeat (zeros bs) (Z.to_nat n).

Definition mem_len (m : mem) : Z := Z.of_nat (length m).

(* a >= uint64(len(d.blocks)) is an unsigned comparison: addresses are >= 0 *)
Definition mem_step (m : mem) (o : op) : mem * out :=
  match o with
  | ORead a =>
      (* buf := make(Block, BlockSize); d.ReadTo(a, buf) *)
      if mem_len m <=? a then (m, RRefused)
      else (m, RBlock (copy_into (zeros bs) (nth (Z.to_nat a) m [])))
  | OReadTo a buf =>
      if mem_len m <=? a then (m, RRefused)
      else (m, RBlock (copy_into buf (nth (Z.to_nat a) m [])))
  | OWrite a v =>
      if negb (Nat.eqb (length v) bs) then (m, RRefused)
      else if mem_len m <=? a then (m, RRefused)
      else (set_nth m (Z.to_nat a) (copy_into (nth (Z.to_nat a) m []) v), RUnit)
  | OSize => (m, RSize (mem_len m))
  | OBarrier => (m, RUnit)
  end.

(* ------------------------------------------------------------------ FileDisk *)
(* The backing file is one flat list of bytes; numBlocks is fixed at open.
   pread(fd, buf, off) returns the bytes of the file in [off, off+len buf)
   that exist (short at end of file; the code ignores the count);
   pwrite(fd, v, off) overwrites / extends (zero-filling a hole). *)
Record fdisk := { nblocks : Z; file : list Z }.

Definition pread (f : list Z) (off : nat) (buf : block) : block :=
  copy_into buf (firstn (length buf) (skipn off f)).

Definition pwrite (f : list Z) (off : nat) (v : block) : list Z :=
  let f' := f ++ repeat 0 (off - length f) in      (* hole before off reads as zero *)
  firstn off f' ++ v ++ skipn (off + length v) f'.

(* int64(a*BlockSize): uint64 multiplication wraps *)
Definition offset_of (a : Z) : Z := (a * Z.of_nat bs) mod 2 ^ 64.

Definition file_step (d : fdisk) (o : op) : fdisk * out :=
  match o with
  | ORead a =>
      if nblocks d <=? a then (d, RRefused)
      else (d, RBlock (pread (file d) (Z.to_nat (offset_of a)) (zeros bs)))
  | OReadTo a buf =>
      if negb (Nat.eqb (length buf) bs) then (d, RRefused)
      else if nblocks d <=? a then (d, RRefused)
      else (d, RBlock (pread (file d) (Z.to_nat (offset_of a)) buf))
  | OWrite a v =>
      if negb (Nat.eqb (length v) bs) then (d, RRefused)
      else if nblocks d <=? a then (d, RRefused)
      else ({| nblocks := nblocks d; file := pwrite (file d) (Z.to_nat (offset_of a)) v |}, RUnit)
  | OSize => (d, RSize (nblocks d))
  | OBarrier => (d, RUnit)
  end.

(* NewFileDisk on a fresh (absent) file: O_CREAT gives an empty file, its size
   0 differs from numBlocks (unless numBlocks = 0) so it is ftruncated to
   numBlocks*BlockSize zero bytes.  Reopen.v models the general case. *)
Definition file_init (n : Z) : fdisk := {| nblocks := n; file := repeat 0 (Z.to_nat n * bs) |}.

(* ------------------------------------------------------------------ running histories *)
Section Run.
  Context {S : Type} (step : S -> op -> S * out).
  Fixpoint run (s : S) (h : list op) : S * list out :=
    match h with
    | [] => (s, [])
    | o :: h' => let '(s', r) := step s o in
                 let '(s'', rs) := run s' h' in (s'', r :: rs)
    end.
  Definition outs (s : S) (h : list op) : list out := snd (run s h).
End Run.

End WithBlockSize.
