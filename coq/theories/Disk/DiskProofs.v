From Coq Require Import List ZArith Lia Bool.
From GV Require Import Disk.Disk.
Import ListNotations.
Open Scope Z_scope.

(* ---------------------------------------------------------------- list facts *)
Lemma set_nth_length {A} (l : list A) i x : length (set_nth l i x) = length l.
Proof. revert i; induction l as [|h t IH]; intros [|i]; simpl; auto. Qed.

Lemma nth_set_nth_eq {A} (l : list A) i x d : (i < length l)%nat -> nth i (set_nth l i x) d = x.
Proof. revert i; induction l as [|h t IH]; intros [|i] H; simpl in *; try lia; auto. apply IH; lia. Qed.

Lemma nth_set_nth_neq {A} (l : list A) i j x d : i <> j -> nth j (set_nth l i x) d = nth j l d.
Proof. revert i j; induction l as [|h t IH]; intros [|i] [|j] H; simpl; auto; try congruence. Qed.

Lemma copy_into_same_length dst src : length dst = length src -> copy_into dst src = src.
Proof.
  intros H. unfold copy_into. rewrite H, firstn_all, skipn_all2 by lia. apply app_nil_r.
Qed.

Lemma copy_into_length dst src : length (copy_into dst src) = length dst.
Proof.
  unfold copy_into. rewrite app_length, firstn_length, skipn_length. lia.
Qed.

Lemma zeros_length k : length (zeros k) = k.
Proof. apply repeat_length. Qed.

Lemma Forall_set_nth {A} (P : A -> Prop) l i x : Forall P l -> P x -> Forall P (set_nth l i x).
Proof.
  intros H Hx. revert i. induction H as [|h t Hh Ht IH]; intros [|i]; simpl; constructor; auto.
Qed.

Lemma Forall_nth_default {A} (P : A -> Prop) l i d : Forall P l -> (i < length l)%nat -> P (nth i l d).
Proof. intros H Hi. rewrite Forall_forall in H. apply H, nth_In, Hi. Qed.

(* ---------------------------------------------------------------- generic simulation *)
Section Sim.
  Context {S1 S2 : Type} (step1 : S1 -> op -> S1 * out) (step2 : S2 -> op -> S2 * out).
  Variable R : S1 -> S2 -> Prop.
  Variable ok : op -> Prop.
  Hypothesis sim : forall s1 s2 o, R s1 s2 -> ok o ->
    snd (step1 s1 o) = snd (step2 s2 o) /\ R (fst (step1 s1 o)) (fst (step2 s2 o)).

  Lemma sim_outs : forall h s1 s2, R s1 s2 -> Forall ok h -> outs step1 s1 h = outs step2 s2 h.
  Proof.
    induction h as [|o h IH]; intros s1 s2 HR Hok; [reflexivity|].
    inversion Hok as [|? ? Ho Hh]; subst.
    destruct (sim s1 s2 o HR Ho) as [E HR'].
    unfold outs in *. cbn [run].
    destruct (step1 s1 o) as [s1' r1] eqn:E1. destruct (step2 s2 o) as [s2' r2] eqn:E2.
    cbn [fst snd] in *. subst r2.
    specialize (IH s1' s2' HR' Hh).
    destruct (run step1 s1' h) as [a1 b1]. destruct (run step2 s2' h) as [a2 b2].
    cbn [snd] in *. now rewrite IH.
  Qed.

  Lemma sim_run_R : forall h s1 s2, R s1 s2 -> Forall ok h ->
    R (fst (run step1 s1 h)) (fst (run step2 s2 h)).
  Proof.
    induction h as [|o h IH]; intros s1 s2 HR Hok; [exact HR|].
    inversion Hok as [|? ? Ho Hh]; subst.
    destruct (sim s1 s2 o HR Ho) as [E HR'].
    cbn [run].
    destruct (step1 s1 o) as [s1' r1]. destruct (step2 s2 o) as [s2' r2].
    cbn [fst snd] in *. specialize (IH s1' s2' HR' Hh).
    destruct (run step1 s1' h) as [a1 b1]. destruct (run step2 s2' h) as [a2 b2].
    exact IH.
  Qed.
End Sim.

Section WithBlockSize.
Variable bs : nat.

Notation regs_step := (regs_step bs).
Notation mem_step := (mem_step bs).
Notation file_step := (file_step bs).

(* addresses are uint64 values *)
Definition addr_ok (o : op) : Prop :=
  match o with ORead a | OReadTo a _ | OWrite a _ => 0 <= a | _ => True end.
(* ... and ReadTo is given a block-sized buffer (its documented use) *)
Definition op_ok (o : op) : Prop :=
  addr_ok o /\ match o with OReadTo _ buf => length buf = bs | _ => True end.

(* ---------------------------------------------------------------- MemDisk refines the registers *)
Definition Rmem (m : mem) (s : regs) : Prop :=
  size s = mem_len m /\ Forall (fun b => length b = bs) m /\
  forall a, 0 <= a < size s -> nth (Z.to_nat a) m [] = reg s a.

Lemma nth_repeat_lt {A} (x d : A) k i : (i < k)%nat -> nth i (repeat x k) d = x.
Proof. revert i; induction k as [|k IH]; intros [|i] H; simpl; try lia; auto. apply IH; lia. Qed.

Lemma Rmem_init n : 0 <= n -> Rmem (mem_init bs n) (regs_init bs n).
Proof.
  intros Hn. unfold Rmem, mem_init, regs_init, mem_len; cbn [size reg].
  rewrite repeat_length. repeat split.
  - lia.
  - apply Forall_forall. intros b Hb. apply repeat_spec in Hb. subst. apply zeros_length.
  - intros a Ha. apply nth_repeat_lt. lia.
Qed.

Lemma mem_sim m s o : Rmem m s -> op_ok o ->
  snd (mem_step m o) = snd (regs_step s o) /\ Rmem (fst (mem_step m o)) (fst (regs_step s o)).
Proof.
  intros (Hsz & Hall & Hnth) (Ha & Hbuf).
  assert (Hblk : forall a, 0 <= a < size s -> length (nth (Z.to_nat a) m []) = bs).
  { intros a Hr. apply (Forall_nth_default (fun b => length b = bs)); [exact Hall|].
    unfold mem_len, mem, block in *. lia. }
  destruct o as [a|a buf|a v| |]; cbn [mem_step regs_step addr_ok] in *.
  - unfold in_range. rewrite <- Hsz.
    destruct (Z.leb_spec (size s) a) as [Hge|Hlt].
    + replace ((0 <=? a) && (a <? size s)) with false
        by (symmetry; apply andb_false_iff; right; apply Z.ltb_ge; lia).
      split; [reflexivity|]. repeat split; assumption.
    + replace ((0 <=? a) && (a <? size s)) with true
        by (symmetry; apply andb_true_intro; split; [apply Z.leb_le|apply Z.ltb_lt]; lia).
      cbn [fst snd]. split; [|repeat split; assumption].
      rewrite copy_into_same_length by (rewrite zeros_length, Hblk; lia).
      now rewrite Hnth by lia.
  - rewrite Hbuf, Nat.eqb_refl. cbn [negb]. unfold in_range. rewrite <- Hsz.
    destruct (Z.leb_spec (size s) a) as [Hge|Hlt].
    + replace ((0 <=? a) && (a <? size s)) with false
        by (symmetry; apply andb_false_iff; right; apply Z.ltb_ge; lia).
      split; [reflexivity|]. repeat split; assumption.
    + replace ((0 <=? a) && (a <? size s)) with true
        by (symmetry; apply andb_true_intro; split; [apply Z.leb_le|apply Z.ltb_lt]; lia).
      cbn [fst snd]. split; [|repeat split; assumption].
      rewrite copy_into_same_length by (rewrite Hblk; lia).
      now rewrite Hnth by lia.
  - destruct (Nat.eqb_spec (length v) bs) as [Hv|Hv]; cbn [negb].
    2:{ split; [reflexivity|]. repeat split; assumption. }
    unfold in_range. rewrite <- Hsz.
    destruct (Z.leb_spec (size s) a) as [Hge|Hlt].
    + replace ((0 <=? a) && (a <? size s)) with false
        by (symmetry; apply andb_false_iff; right; apply Z.ltb_ge; lia).
      split; [reflexivity|]. repeat split; assumption.
    + replace ((0 <=? a) && (a <? size s)) with true
        by (symmetry; apply andb_true_intro; split; [apply Z.leb_le|apply Z.ltb_lt]; lia).
      cbn [fst snd]. split; [reflexivity|].
      rewrite copy_into_same_length by (rewrite Hblk; lia).
      unfold Rmem, mem_len, mem, block in *; cbn [size reg]. rewrite set_nth_length.
      repeat split; [exact Hsz| apply Forall_set_nth; assumption |].
      intros a' Ha'. destruct (Z.eqb_spec a' a) as [->|Hne].
      * apply nth_set_nth_eq. lia.
      * rewrite nth_set_nth_neq by lia. apply Hnth. lia.
  - cbn [fst snd]. rewrite Hsz. split; [reflexivity|]. repeat split; assumption.
  - cbn [fst snd]. split; [reflexivity|]. repeat split; assumption.
Qed.

Theorem mem_refines n h : 0 <= n -> Forall op_ok h ->
  outs mem_step (mem_init bs n) h = outs regs_step (regs_init bs n) h.
Proof.
  intros Hn Hh. eapply (sim_outs mem_step regs_step Rmem op_ok).
  - intros; now apply mem_sim.
  - now apply Rmem_init.
  - exact Hh.
Qed.


(* ---------------------------------------------------------------- FileDisk refines the registers *)
Lemma skipn_skipn' {A} (l : list A) m n : skipn n (skipn m l) = skipn (m + n) l.
Proof.
  revert l; induction m as [|m IH]; intros l; [reflexivity|].
  destruct l as [|x t]; [now rewrite !skipn_nil|]. cbn [skipn plus]. apply IH.
Qed.

Lemma firstn_skipn_comm' {A} (l : list A) m n : skipn m (firstn n l) = firstn (n - m) (skipn m l).
Proof.
  revert l n; induction m as [|m IH]; intros l n.
  - now rewrite Nat.sub_0_r.
  - destruct n as [|n]; [reflexivity|].
    destruct l as [|x t]; [simpl; now rewrite firstn_nil|]. cbn [firstn skipn Nat.sub]. apply IH.
Qed.

(* the block at index i of a flat file *)
Definition blk_at (f : list Z) (i : nat) : block := firstn bs (skipn (i * bs) f).

Lemma pread_full f off buf : length buf = bs -> (off + bs <= length f)%nat ->
  pread f off buf = firstn bs (skipn off f).
Proof.
  intros Hb Hf. unfold pread. rewrite Hb. apply copy_into_same_length.
  rewrite firstn_length, skipn_length. lia.
Qed.

Lemma pwrite_inside f off v : (off + length v <= length f)%nat ->
  pwrite f off v = firstn off f ++ v ++ skipn (off + length v) f.
Proof.
  intros H. unfold pwrite. replace (off - length f)%nat with 0%nat by lia.
  cbn [repeat]. now rewrite app_nil_r.
Qed.

Lemma pwrite_length f off v : (off + length v <= length f)%nat ->
  length (pwrite f off v) = length f.
Proof.
  intros H. rewrite pwrite_inside by exact H.
  rewrite !app_length, firstn_length, skipn_length. lia.
Qed.

Lemma mul_lt_step (i j : nat) : (i < j)%nat -> (i * bs + bs <= j * bs)%nat.
Proof. intros H. nia. Qed.

Lemma blk_at_pwrite_same f i v : length v = bs -> (i * bs + bs <= length f)%nat ->
  blk_at (pwrite f (i * bs) v) i = v.
Proof.
  intros Hv Hf. unfold blk_at. rewrite pwrite_inside by lia.
  rewrite skipn_app, firstn_length, Nat.min_l by lia.
  rewrite skipn_all2 by (rewrite firstn_length; lia).
  rewrite Nat.sub_diag. cbn [skipn app].
  rewrite firstn_app, Hv, Nat.sub_diag, firstn_O, app_nil_r.
  apply firstn_all2. lia.
Qed.

Lemma blk_at_pwrite_other f i j v : length v = bs -> (i * bs + bs <= length f)%nat ->
  (j * bs + bs <= length f)%nat -> i <> j ->
  blk_at (pwrite f (i * bs) v) j = blk_at f j.
Proof.
  intros Hv Hi Hj Hne. unfold blk_at. rewrite pwrite_inside by lia.
  destruct (Nat.lt_ge_cases j i) as [Hlt|Hge].
  - pose proof (mul_lt_step j i Hlt) as Hm.
    rewrite skipn_app, firstn_length, Nat.min_l by lia.
    replace (j * bs - i * bs)%nat with 0%nat by lia. cbn [skipn].
    rewrite firstn_app.
    rewrite firstn_skipn_comm'.
    rewrite firstn_length, skipn_length.
    replace (bs - Nat.min (i * bs - j * bs) (length f - j * bs))%nat with 0%nat by lia.
    rewrite firstn_O, app_nil_r, firstn_firstn. f_equal. lia.
  - assert (Hlt : (i < j)%nat) by lia.
    pose proof (mul_lt_step i j Hlt) as Hm.
    rewrite skipn_app, firstn_length, Nat.min_l by lia.
    rewrite skipn_all2 by (rewrite firstn_length; lia). cbn [app].
    rewrite skipn_app, Hv.
    rewrite skipn_all2 by lia. cbn [app].
    rewrite skipn_skipn'. f_equal. f_equal. lia.
Qed.

Definition Rfile (d : fdisk) (s : regs) : Prop :=
  nblocks d = size s /\ 0 <= size s /\ size s * Z.of_nat bs < 2 ^ 64 /\
  length (file d) = (Z.to_nat (size s) * bs)%nat /\
  forall a, 0 <= a < size s -> blk_at (file d) (Z.to_nat a) = reg s a.

Lemma blk_at_zero n i : (i < n)%nat -> blk_at (repeat 0 (n * bs)) i = zeros bs.
Proof.
  intros Hi. unfold blk_at, zeros.
  pose proof (mul_lt_step i n Hi) as Hm.
  replace (n * bs)%nat with (i * bs + (bs + (n * bs - i * bs - bs)))%nat by lia.
  rewrite !repeat_app.
  rewrite skipn_app, repeat_length, Nat.sub_diag.
  rewrite skipn_all2 by (rewrite repeat_length; lia). cbn [app skipn].
  rewrite firstn_app, repeat_length, Nat.sub_diag, firstn_O, app_nil_r.
  apply firstn_all2. rewrite repeat_length. lia.
Qed.

Lemma Rfile_init n : 0 <= n -> n * Z.of_nat bs < 2 ^ 64 -> Rfile (file_init bs n) (regs_init bs n).
Proof.
  intros Hn Hw. unfold Rfile, file_init, regs_init; cbn [nblocks file size reg].
  repeat split; try assumption.
  - apply repeat_length.
  - intros a Ha. apply blk_at_zero. lia.
Qed.

Lemma offset_of_small n a : 0 <= a < n -> n * Z.of_nat bs < 2 ^ 64 ->
  Z.to_nat (offset_of bs a) = (Z.to_nat a * bs)%nat.
Proof.
  intros Ha Hn. unfold offset_of. rewrite Z.mod_small by nia.
  rewrite Z2Nat.inj_mul by lia. now rewrite Nat2Z.id.
Qed.

Lemma file_sim d s o : Rfile d s -> addr_ok o ->
  snd (file_step d o) = snd (regs_step s o) /\ Rfile (fst (file_step d o)) (fst (regs_step s o)).
Proof.
  intros (Hnb & Hn0 & Hwrap & Hlen & Hblk) Ha.
  assert (HR : Rfile d s) by (repeat split; assumption).
  assert (Hoff : forall a, 0 <= a < size s ->
            Z.to_nat (offset_of bs a) = (Z.to_nat a * bs)%nat /\ (Z.to_nat a * bs + bs <= length (file d))%nat).
  { intros a Hr. split; [eapply offset_of_small; eauto|].
    rewrite Hlen. apply mul_lt_step. lia. }
  destruct o as [a|a buf|a v| |]; cbn [file_step regs_step addr_ok] in *.
  - unfold in_range. rewrite Hnb.
    destruct (Z.leb_spec (size s) a) as [Hge|Hlt].
    + replace ((0 <=? a) && (a <? size s)) with false
        by (symmetry; apply andb_false_iff; right; apply Z.ltb_ge; lia).
      split; [reflexivity|exact HR].
    + replace ((0 <=? a) && (a <? size s)) with true
        by (symmetry; apply andb_true_intro; split; [apply Z.leb_le|apply Z.ltb_lt]; lia).
      cbn [fst snd]. split; [|exact HR].
      destruct (Hoff a ltac:(lia)) as [-> Hin].
      rewrite pread_full by (try apply zeros_length; exact Hin).
      fold (blk_at (file d) (Z.to_nat a)). now rewrite Hblk by lia.
  - destruct (Nat.eqb_spec (length buf) bs) as [Hb|Hb]; cbn [negb].
    2:{ split; [reflexivity|exact HR]. }
    unfold in_range. rewrite Hnb.
    destruct (Z.leb_spec (size s) a) as [Hge|Hlt].
    + replace ((0 <=? a) && (a <? size s)) with false
        by (symmetry; apply andb_false_iff; right; apply Z.ltb_ge; lia).
      split; [reflexivity|exact HR].
    + replace ((0 <=? a) && (a <? size s)) with true
        by (symmetry; apply andb_true_intro; split; [apply Z.leb_le|apply Z.ltb_lt]; lia).
      cbn [fst snd]. split; [|exact HR].
      destruct (Hoff a ltac:(lia)) as [-> Hin].
      rewrite pread_full by (try exact Hb; exact Hin).
      fold (blk_at (file d) (Z.to_nat a)). now rewrite Hblk by lia.
  - destruct (Nat.eqb_spec (length v) bs) as [Hv|Hv]; cbn [negb].
    2:{ split; [reflexivity|exact HR]. }
    unfold in_range. rewrite Hnb.
    destruct (Z.leb_spec (size s) a) as [Hge|Hlt].
    + replace ((0 <=? a) && (a <? size s)) with false
        by (symmetry; apply andb_false_iff; right; apply Z.ltb_ge; lia).
      split; [reflexivity|exact HR].
    + replace ((0 <=? a) && (a <? size s)) with true
        by (symmetry; apply andb_true_intro; split; [apply Z.leb_le|apply Z.ltb_lt]; lia).
      cbn [fst snd]. split; [reflexivity|].
      destruct (Hoff a ltac:(lia)) as [-> Hin].
      unfold Rfile; cbn [nblocks file size reg].
      repeat split; try assumption.
      * rewrite pwrite_length by lia. exact Hlen.
      * intros a' Ha'. destruct (Z.eqb_spec a' a) as [->|Hne].
        -- apply blk_at_pwrite_same; assumption.
        -- destruct (Hoff a' Ha') as [_ Hin'].
           rewrite blk_at_pwrite_other; try assumption; [apply Hblk; exact Ha'|].
           intros E. apply Hne. apply Z2Nat.inj; lia.
  - cbn [fst snd]. rewrite Hnb. split; [reflexivity|exact HR].
  - cbn [fst snd]. split; [reflexivity|exact HR].
Qed.

Theorem file_refines n h : 0 <= n -> n * Z.of_nat bs < 2 ^ 64 -> Forall addr_ok h ->
  outs file_step (file_init bs n) h = outs regs_step (regs_init bs n) h.
Proof.
  intros Hn Hw Hh. eapply (sim_outs file_step regs_step Rfile addr_ok).
  - intros; now apply file_sim.
  - now apply Rfile_init.
  - exact Hh.
Qed.

Lemma op_ok_addr_ok o : op_ok o -> addr_ok o.
Proof. now intros [H _]. Qed.

Corollary mem_file_equal n h : 0 <= n -> n * Z.of_nat bs < 2 ^ 64 -> Forall op_ok h ->
  outs mem_step (mem_init bs n) h = outs file_step (file_init bs n) h.
Proof.
  intros Hn Hw Hh. rewrite mem_refines, file_refines; auto.
  eapply Forall_impl; [|exact Hh]. exact op_ok_addr_ok.
Qed.


(* ---------------------------------------------------------------- the specification, over histories *)
(* accepted write: in range and block-sized *)
Definition accepted (n : Z) (o : op) : bool :=
  match o with
  | OWrite a v => Nat.eqb (length v) bs && in_range n a
  | _ => false
  end.

(* value of register a after history h, starting from value cur:
   the last accepted write to a, if any *)
Fixpoint last_write (n : Z) (h : list op) (a : Z) (cur : block) : block :=
  match h with
  | [] => cur
  | OWrite a' v :: h' =>
      if accepted n (OWrite a' v) && Z.eqb a' a then last_write n h' a v else last_write n h' a cur
  | _ :: h' => last_write n h' a cur
  end.

Lemma regs_step_size s o : size (fst (regs_step s o)) = size s.
Proof.
  destruct o as [a|a buf|a v| |]; cbn [regs_step];
    repeat match goal with |- context [if ?c then _ else _] => destruct c end; reflexivity.
Qed.

Lemma regs_run_size h : forall s, size (fst (run regs_step s h)) = size s.
Proof.
  induction h as [|o h IH]; intros s; [reflexivity|].
  cbn [run]. pose proof (regs_step_size s o) as E.
  destruct (regs_step s o) as [s' r]. specialize (IH s').
  destruct (run regs_step s' h) as [s'' rs]. cbn [fst] in *. congruence.
Qed.

Lemma regs_run_reg h : forall s a,
  reg (fst (run regs_step s h)) a = last_write (size s) h a (reg s a).
Proof.
  induction h as [|o h IH]; intros s a; [reflexivity|].
  cbn [run]. pose proof (regs_step_size s o) as Esz.
  destruct (regs_step s o) as [s' r] eqn:E. specialize (IH s' a).
  destruct (run regs_step s' h) as [s'' rs]. cbn [fst] in *. rewrite IH, Esz.
  destruct o as [b|b buf|b v| |]; cbn [regs_step last_write accepted] in *;
    try (repeat match type of E with context [if ?c then _ else _] => destruct c end;
         injection E as <- <-; reflexivity).
  destruct (Nat.eqb (length v) bs); cbn [negb andb] in *.
  2:{ injection E as <- <-. reflexivity. }
  destruct (in_range (size s) b); cbn [andb] in *.
  2:{ injection E as <- <-. reflexivity. }
  injection E as <- <-. cbn [reg]. rewrite (Z.eqb_sym a b).
  destruct (Z.eqb b a); reflexivity.
Qed.

Lemma outs_app {S} (step : S -> op -> S * out) h1 h2 s :
  outs step s (h1 ++ h2) = outs step s h1 ++ outs step (fst (run step s h1)) h2.
Proof.
  revert s; induction h1 as [|o h1 IH]; intros s; [reflexivity|].
  unfold outs in *. cbn [run app]. destruct (step s o) as [s' r].
  specialize (IH s'). destruct (run step s' (h1 ++ h2)) as [x y].
  destruct (run step s' h1) as [x1 y1]. cbn [fst snd] in *. now rewrite IH.
Qed.

(* every read returns the most recent value written to that address (zeros if
   none), out-of-range reads are refused — whatever the history before it *)
Theorem regs_read_spec n h a :
  outs regs_step (regs_init bs n) (h ++ [ORead a]) =
  outs regs_step (regs_init bs n) h ++
  [if in_range n a then RBlock (last_write n h a (zeros bs)) else RRefused].
Proof.
  rewrite outs_app. f_equal. unfold outs. cbn [run snd regs_step].
  rewrite regs_run_size. cbn [regs_init size].
  destruct (in_range n a); [|reflexivity]. cbn [snd].
  now rewrite regs_run_reg.
Qed.

Theorem regs_readto_spec n h a buf : length buf = bs ->
  outs regs_step (regs_init bs n) (h ++ [OReadTo a buf]) =
  outs regs_step (regs_init bs n) h ++
  [if in_range n a then RBlock (last_write n h a (zeros bs)) else RRefused].
Proof.
  intros Hb. rewrite outs_app. f_equal. unfold outs. cbn [run snd regs_step].
  rewrite Hb, Nat.eqb_refl. cbn [negb].
  rewrite regs_run_size. cbn [regs_init size].
  destruct (in_range n a); [|reflexivity]. cbn [snd].
  now rewrite regs_run_reg.
Qed.

(* a write is refused exactly when the address is out of range or the buffer
   is not block-sized, and then nothing changes *)
Theorem regs_write_refused_iff s a v :
  snd (regs_step s (OWrite a v)) = RRefused <-> (length v <> bs \/ in_range (size s) a = false).
Proof.
  cbn [regs_step]. destruct (Nat.eqb_spec (length v) bs) as [E|E]; cbn [negb].
  - destruct (in_range (size s) a); cbn [snd]; split; intros H; try discriminate; auto.
    destruct H as [H|H]; [contradiction|discriminate].
  - cbn [snd]. split; auto.
Qed.

Theorem regs_refused_unchanged s o : snd (regs_step s o) = RRefused -> fst (regs_step s o) = s.
Proof.
  destruct o as [a|a buf|a v| |]; cbn [regs_step];
    repeat match goal with |- context [if ?c then _ else _] => destruct c end; cbn [fst snd];
    intros H; try discriminate; reflexivity.
Qed.

(* a write to a changes no other register *)
Theorem last_write_other n a a' v h cur : a' <> a ->
  last_write n (OWrite a' v :: h) a cur = last_write n h a cur.
Proof.
  intros Hne. cbn [last_write]. destruct (Z.eqb_spec a' a); [contradiction|].
  now rewrite andb_false_r.
Qed.

(* Size never changes *)
Theorem regs_size_const n h : size (fst (run regs_step (regs_init bs n) h)) = n.
Proof. now rewrite regs_run_size. Qed.

(* the contents of the buffer handed to ReadTo are irrelevant (only its length) *)
Theorem regs_readto_buffer_irrelevant s a buf buf' : length buf = length buf' ->
  regs_step s (OReadTo a buf) = regs_step s (OReadTo a buf').
Proof. intros H. cbn [regs_step]. now rewrite H. Qed.

End WithBlockSize.
