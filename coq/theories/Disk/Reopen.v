(* NewFileDisk on an existing (or absent) image, Close, and reopening.
   Mirror of machine/disk/file.go NewFileDisk:

     fd := open(path, O_RDWR|O_CREAT)            absent -> empty file
     fstat(fd)
     if regular && uint64(stat.Size) != numBlocks*BlockSize {
         ftruncate(fd, int64(numBlocks*BlockSize)) }      (uint64 product wraps)

   Close only releases the descriptor: the image (the model's [file]) stays. *)
From Coq Require Import List ZArith Lia Bool.
From GV Require Import Disk.Disk Disk.DiskProofs.
Import ListNotations.
Open Scope Z_scope.

Section WithBlockSize.
Variable bs : nat.

(* ftruncate(fd, k): cut, or extend with zero bytes *)
Definition ftruncate (f : list Z) (k : nat) : list Z := firstn k f ++ repeat 0 (k - length f).

(* None: NewFileDisk returned an error (ftruncate with a negative length) *)
Definition open_disk (n : Z) (prev : option (list Z)) : option fdisk :=
  let f := match prev with None => [] | Some f => f end in
  let want := (n * Z.of_nat bs) mod 2 ^ 64 in
  if Z.of_nat (length f) =? want then Some {| nblocks := n; file := f |}
  else if 2 ^ 63 <=? want then None
  else Some {| nblocks := n; file := ftruncate f (Z.to_nat want) |}.

Definition close_disk (d : fdisk) : list Z := file d.

Lemma ftruncate_length f k : length (ftruncate f k) = k.
Proof. unfold ftruncate. rewrite app_length, firstn_length, repeat_length. lia. Qed.

Lemma ftruncate_same f : ftruncate f (length f) = f.
Proof. unfold ftruncate. rewrite firstn_all, Nat.sub_diag. apply app_nil_r. Qed.

Lemma open_disk_file n prev d : 0 <= n -> n * Z.of_nat bs < 2 ^ 63 ->
  open_disk n prev = Some d ->
  nblocks d = n /\
  file d = ftruncate (match prev with None => [] | Some f => f end) (Z.to_nat n * bs).
Proof.
  intros Hn Hw. unfold open_disk.
  set (f := match prev with None => [] | Some f => f end).
  rewrite Z.mod_small by lia.
  destruct (Z.eqb_spec (Z.of_nat (length f)) (n * Z.of_nat bs)) as [E|E].
  - intros Hd; injection Hd as <-. cbn [nblocks file]. split; [reflexivity|].
    replace (Z.to_nat n * bs)%nat with (length f) by nia. now rewrite ftruncate_same.
  - destruct (Z.leb_spec (2 ^ 63) (n * Z.of_nat bs)) as [Hbig|Hsmall]; [lia|].
    intros Hd; injection Hd as <-. cbn [nblocks file]. split; [reflexivity|].
    f_equal. rewrite Z2Nat.inj_mul by lia. now rewrite Nat2Z.id.
Qed.

Lemma open_disk_succeeds n prev : 0 <= n -> n * Z.of_nat bs < 2 ^ 63 -> exists d, open_disk n prev = Some d.
Proof.
  intros Hn Hw. unfold open_disk. rewrite Z.mod_small by lia.
  destruct (Z.eqb _ _); [eauto|]. destruct (Z.leb_spec (2 ^ 63) (n * Z.of_nat bs)); [lia|eauto].
Qed.

(* exactly the requested size; retained bytes preserved; new bytes zero *)
Theorem open_disk_spec n prev d : 0 <= n -> n * Z.of_nat bs < 2 ^ 63 ->
  open_disk n prev = Some d ->
  let f := match prev with None => [] | Some f => f end in
  nblocks d = n /\ length (file d) = (Z.to_nat n * bs)%nat /\
  (forall i, (i < length f)%nat -> (i < Z.to_nat n * bs)%nat -> nth i (file d) 0 = nth i f 0) /\
  (forall i, (length f <= i)%nat -> nth i (file d) 0 = 0).
Proof.
  intros Hn Hw Ho f. destruct (open_disk_file n prev d Hn Hw Ho) as [Hnb Hf].
  fold f in Hf. rewrite Hf. repeat split.
  - exact Hnb.
  - apply ftruncate_length.
  - intros i Hi Hk. unfold ftruncate. rewrite app_nth1 by (rewrite firstn_length; lia).
    rewrite <- (firstn_skipn (Z.to_nat n * bs) f) at 2.
    rewrite app_nth1 by (rewrite firstn_length; lia). reflexivity.
  - intros i Hi. unfold ftruncate.
    destruct (Nat.lt_ge_cases i (length (firstn (Z.to_nat n * bs) f))) as [Hlt|Hge].
    + rewrite firstn_length in Hlt. lia.
    + rewrite app_nth2 by exact Hge.
      destruct (Nat.lt_ge_cases (i - length (firstn (Z.to_nat n * bs) f)) (Z.to_nat n * bs - length f)) as [H1|H1].
      * now rewrite nth_repeat_lt.
      * apply nth_overflow. rewrite repeat_length. exact H1.
Qed.

(* block view: complete blocks of the old image are kept, blocks beyond it read zero *)
Lemma blk_at_ftruncate_keep f k a : (a * bs + bs <= length f)%nat -> (a * bs + bs <= k)%nat ->
  blk_at bs (ftruncate f k) a = blk_at bs f a.
Proof.
  intros Hf Hk. unfold blk_at, ftruncate.
  rewrite skipn_app, firstn_length.
  replace (a * bs - Nat.min k (length f))%nat with 0%nat by lia. cbn [skipn].
  rewrite firstn_app, firstn_skipn_comm', firstn_length, skipn_length.
  replace (bs - Nat.min (k - a * bs) (length f - a * bs))%nat with 0%nat by lia.
  rewrite firstn_O, app_nil_r, firstn_firstn. f_equal. lia.
Qed.

Lemma blk_at_ftruncate_new f k a : (length f <= a * bs)%nat -> (a * bs + bs <= k)%nat ->
  blk_at bs (ftruncate f k) a = zeros bs.
Proof.
  intros Hf Hk. unfold blk_at, ftruncate, zeros.
  rewrite skipn_app, firstn_length, Nat.min_r by lia.
  rewrite skipn_all2 by (rewrite firstn_length; lia). cbn [app].
  replace (k - length f)%nat with ((a * bs - length f) + (bs + (k - a * bs - bs)))%nat by lia.
  rewrite !repeat_app, skipn_app, repeat_length, Nat.sub_diag.
  rewrite skipn_all2 by (rewrite repeat_length; lia). cbn [app skipn].
  rewrite firstn_app, repeat_length, Nat.sub_diag, firstn_O, app_nil_r.
  apply firstn_all2. rewrite repeat_length. lia.
Qed.

(* Reopening: whatever happened before (any history h on a disk related to the
   register state s0), closing and reopening with n' blocks gives a disk that
   behaves, on every later history, as the register array whose first
   min(n,n') registers hold the last values written and whose further
   registers are zero. *)
Definition regs_reopened (s : regs) (n' : Z) : regs :=
  {| size := n'; reg := fun a => if a <? size s then reg s a else zeros bs |}.

Theorem reopen_refines d0 s0 h n' d2 : Rfile bs d0 s0 -> Forall addr_ok h ->
  0 <= n' -> n' * Z.of_nat bs < 2 ^ 63 ->
  let d1 := fst (run (file_step bs) d0 h) in
  let s1 := fst (run (regs_step bs) s0 h) in
  open_disk n' (Some (close_disk d1)) = Some d2 ->
  Rfile bs d2 (regs_reopened s1 n').
Proof.
  intros HR Hh Hn' Hw d1 s1 Ho.
  assert (HR1 : Rfile bs d1 s1).
  { eapply (sim_run_R (file_step bs) (regs_step bs) (Rfile bs) addr_ok); eauto.
    intros; now apply file_sim. }
  destruct HR1 as (Hnb & Hn0 & Hwrap & Hlen & Hblk).
  destruct (open_disk_file n' _ d2 Hn' Hw Ho) as [Hnb2 Hf2]. unfold close_disk in Hf2.
  unfold Rfile, regs_reopened; cbn [size reg].
  repeat split; try assumption; try lia.
  - rewrite Hf2. apply ftruncate_length.
  - intros a Ha. rewrite Hf2.
    assert (Hk : (Z.to_nat a * bs + bs <= Z.to_nat n' * bs)%nat) by (apply mul_lt_step; lia).
    destruct (Z.ltb_spec a (size s1)) as [Hlt|Hge].
    + rewrite blk_at_ftruncate_keep; [apply Hblk; lia| |exact Hk].
      rewrite Hlen. apply mul_lt_step. lia.
    + apply blk_at_ftruncate_new; [|exact Hk].
      rewrite Hlen. nia.
Qed.

(* hence: every later read returns the last value written before the reopen
   (or zero for a block that did not exist) *)
Corollary reopen_outs d0 s0 h n' d2 h' : Rfile bs d0 s0 -> Forall addr_ok h -> Forall addr_ok h' ->
  0 <= n' -> n' * Z.of_nat bs < 2 ^ 63 ->
  open_disk n' (Some (close_disk (fst (run (file_step bs) d0 h)))) = Some d2 ->
  outs (file_step bs) d2 h' = outs (regs_step bs) (regs_reopened (fst (run (regs_step bs) s0 h)) n') h'.
Proof.
  intros HR Hh Hh' Hn' Hw Ho.
  eapply (sim_outs (file_step bs) (regs_step bs) (Rfile bs) addr_ok); eauto.
  - intros; now apply file_sim.
  - eapply reopen_refines; eauto.
Qed.

(* opening any prior image (or none) yields a register array: block a holds
   the a-th complete block of the image, blocks beyond the image are zero *)
Theorem open_any_image n prev d : 0 <= n -> n * Z.of_nat bs < 2 ^ 63 ->
  open_disk n prev = Some d ->
  Rfile bs d {| size := n; reg := fun a => blk_at bs (file d) (Z.to_nat a) |}.
Proof.
  intros Hn Hw Ho. destruct (open_disk_file n prev d Hn Hw Ho) as [Hnb Hf].
  unfold Rfile; cbn [size reg]. repeat split; try assumption; try lia.
  rewrite Hf. apply ftruncate_length.
Qed.

End WithBlockSize.
